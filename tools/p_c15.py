"""C15 - canary nodes are valid, distinct, stable and as many as requested."""
import copy

import k8s as K
import worldgen
import wprop
from wprop import encode, classify_unencodable, sample  # noqa: F401

ID = "C15"
TAGS = ["h_world"]
CHECK_MODULE = "Check.C15Check"
IMPORTS = ["Model.Objects", "Model.PodSpec", "Model.Backoff", "Model.ErsReconcile", "Model.EdsReconcile", "Check.World"]
RULE = ("real ExtendedDaemonSet Reconciles on a running canary: 0-12 nodes (labels, taints, restart history of their pods), "
        "canary replicas as number (0..N+1) and percent, node selectors (labels, expressions, unusable), 0-2 anti-affinity "
        "keys, previously selected lists including vanished, unfit and duplicated names; then a canary node is deleted, "
        "tainted or relabelled and the ExtendedDaemonSet is reconciled again. Non-trivial = a status carrying a canary "
        "node list was written.")
ASSUMPTIONS = [
    "node names are unique; the list read (status.canary.nodes) is duplicate free for the distinctness monitor",
    "Go's sort.Slice is stable below 13 elements (insertion sort): node populations are kept <= 12",
    "least-restarts is proved (C15_least_restarts) and monitored without anti-affinity keys; with keys the quota may skip a candidate",
]
CODES = {
    1: "model does not predict the reconcile",
    10: "status.canary.nodes contains a name twice",
    11: "a freshly selected canary node does not exist, does not match the canary node selector or is not fit for the pod",
    12: "a previously selected node that is still valid was dropped",
    13: "nodes were added beyond the resolved canary replicas",
    14: "a canary list shorter than the resolved replicas was written and the reconcile reported no error",
    18: "a canary list shorter than the resolved replicas was written although a valid candidate node was left out",
    19: "canary nodes were added although the List of the pods (restart counts) or of the nodes had failed",
    16: "canary replicas did not resolve but a canary status was written",
    17: "a node with more pod restarts was preferred to a valid candidate with fewer",
    21: "with nodeAntiAffinityKeys: after a selection one value of the keys is carried by more canary nodes than the quota (and than the nodes kept from before)",
    111: "known finding D9: a canary node that vanished or became unfit stays in status.canary.nodes while the count matches",
    20: "harness panic",
}
OPEN_STATEMENTS = ["C15_valid_while_active_statement (false of the code: known finding D9)",
                   "least-restarts is proved without anti-affinity keys (C15_least_restarts); with them the per-value quota is "
                   "proved (C15_spreading) and monitored (21), their combination is covered by the correspondence"]
GO_TIMEOUT = 1200


def generate(rng, tier, stats):
    return gen_cases(rng, stats, 260 if tier == "quick" else 4000)


def gen_cases(rng, stats, n, shrink=0.15):
    """shrink = share of cases in which the previously selected list is longer than the resolved replicas."""
    out = []
    for i in range(n):
        nn = rng.choice([0, 1, 2, 3, 4, 6, 8, 10, 12])
        force = {"scenario": rng.choice(["canary_running", "canary_running", "canary_running", "new_template"]), "n": nn,
                 "no_faults": rng.random() < 0.92, "plain_templates": rng.random() < 0.5,
                 "annotations": {} if rng.random() < 0.8 else {"extendeddaemonset.datadoghq.com/canary-paused": "true"}}
        shrunk = rng.random() < shrink
        if shrunk:
            force["n"] = nn = rng.choice([4, 6, 8, 10])
            force["canary_k"] = rng.choice([2, 3, 4])
            force["scenario"] = "canary_running"
        exact = (not shrunk) and rng.random() < 0.15
        if exact:
            # one name too many on the list, and exactly one of the listed nodes is gone: re-validation leaves precisely
            # the requested number - nothing may be added
            r_exact = rng.choice([1, 2, 3])
            force["n"] = nn = rng.choice([4, 6, 8])
            force["canary_k"] = r_exact + 1
            force["scenario"] = "canary_running"
            force["plain_templates"] = True
        spread = (not shrunk) and (not exact) and rng.random() < 0.2
        if spread:
            # anti-affinity keys and a list that has to GROW: some nodes are kept, more are added - the kept ones count
            force["n"] = nn = rng.choice([6, 8, 10])
            force["canary_k"] = rng.choice([1, 1, 2])
            force["scenario"] = "canary_running"
            force["plain_templates"] = True
        c = worldgen.gen_eds_world(rng, stats, force)
        e = [o for o in c["objects"] if o["kind"] == "ExtendedDaemonSet"][0]
        if spread and e["spec"]["strategy"].get("canary") is not None:
            e["spec"]["strategy"]["canary"]["nodeAntiAffinityKeys"] = rng.choice([["zone"], ["zone"], ["zone", "role"]])
            e["spec"]["strategy"]["canary"].pop("nodeSelector", None)
            wprop.bump(stats, "anti-affinity keys with kept nodes and a growing list", "yes")
        if exact and (e.get("status") or {}).get("canary") and e["spec"]["strategy"].get("canary") is not None:
            listed = [x for x in e["status"]["canary"]["nodes"] if x != "n-gone"]
            if len(listed) == r_exact + 1:
                gone = rng.choice(listed)
                c["objects"] = [o for o in c["objects"] if not (o["kind"] == "Node" and o["metadata"]["name"] == gone)]
                wprop.bump(stats, "re-validation leaves exactly the requested number", "yes")
        can = e["spec"]["strategy"].get("canary")
        if can is not None:
            can["replicas"] = rng.choice([0, 1, 1, 2, 3, nn, nn + 1, "1%", "25%", "50%", "100%", "150%", "abc"])
            if exact:
                can["replicas"] = r_exact
                can.pop("nodeSelector", None)
            if spread:
                can["replicas"] = rng.choice([3, 4, 4, "50%"])
            if shrunk:
                can["replicas"] = rng.choice([1, 1, 2, "10%", "25%"])
                wprop.bump(stats, "previous list longer than replicas", "yes")
            wprop.bump(stats, "replicas", can["replicas"])
            if rng.random() < 0.4:
                # by labels, by expressions only (matchLabels absent), both, an expression nothing satisfies
                can["nodeSelector"] = rng.choice([{"matchLabels": {"role": "w"}}, {"matchLabels": {"zone": "a"}},
                                                  {"matchExpressions": [{"key": "zone", "operator": "In", "values": ["a", "b"]}]},
                                                  {"matchExpressions": [{"key": "zone", "operator": "In", "values": ["a"]}]},
                                                  {"matchExpressions": [{"key": "role", "operator": "NotIn", "values": ["w"]}]},
                                                  {"matchExpressions": [{"key": "big", "operator": "Exists"}]},
                                                  {"matchLabels": {"role": "w"}, "matchExpressions": [{"key": "zone", "operator": "In", "values": ["b"]}]},
                                                  {"matchExpressions": [{"key": "zone", "operator": "In", "values": []}]}])
        # make sure the failed condition is rare here (a failed canary has no list)
        nodes = [o for o in c["objects"] if o["kind"] == "Node"]
        if rng.random() < 0.2 and not c["ops"][0].get("faults"):
            # the List of the pods (restart counts) or of the nodes fails inside the selection: the error is reported, the
            # list stays as it was - nothing is selected blindly
            c["ops"][0] = dict(c["ops"][0], faults={"list_fail": [rng.choice(["Pod", "Pod", "Node"])]})
            wprop.bump(stats, "a List fails inside the selection", "yes")
        ops = [c["ops"][0]]
        if nodes and rng.random() < 0.7:
            # later churn on a (possibly selected) node, then reconcile again
            victim = rng.choice(nodes)
            r = rng.random()
            if r < 0.35:
                ops.append(K.delete("Node", "", victim["metadata"]["name"]))
            elif r < 0.7:
                v = copy.deepcopy(victim)
                v.setdefault("spec", {})["taints"] = [{"key": "dedicated", "value": "gpu", "effect": "NoExecute"}]
                ops.append(K.apply(v))
            else:
                v = copy.deepcopy(victim)
                v["metadata"]["labels"] = {"role": "x"}
                ops.append(K.apply(v))
            if rng.random() < 0.5:
                ops.append(K.sleep(rng.choice([1, 10, 60])))
            ops.append(K.reconcile("eds", worldgen.NS, worldgen.EDS))
            if rng.random() < 0.3:
                ops.append(K.reconcile("eds", worldgen.NS, worldgen.EDS))
        else:
            ops += c["ops"][1:]
        c["ops"] = ops
        out.append(c)
    # directed (ninth round): nodes that carry TWO daemon pods with different restart counts - the restarts of a node are the
    # sum over its pods, not those of the pod listed last - and an empty list that has to be filled from them
    for j in range(max(16, n // 16)):
        nn = rng.choice([4, 6, 8])
        c = worldgen.gen_eds_world(rng, stats, {"scenario": "canary_running", "n": nn, "canary_k": 0, "no_faults": True,
                                                "plain_templates": True, "annotations": {}})
        e = [o for o in c["objects"] if o["kind"] == "ExtendedDaemonSet"][0]
        can = e["spec"]["strategy"].get("canary")
        if can is not None:
            can["replicas"] = rng.choice([1, 2, 2, 3])
            if "nodeSelector" in can:
                can["nodeSelector"] = {}
            can.pop("nodeAntiAffinityKeys", None)
        has_a = any(o["kind"] == "ExtendedDaemonSetReplicaSet" and o["metadata"]["name"] == "foo-a" for o in c["objects"])
        c["objects"] = [o for o in c["objects"] if not (o["kind"] == "Pod" and o["metadata"]["name"].startswith("p-"))]
        for nd in [o for o in c["objects"] if o["kind"] == "Node"]:
            name = nd["metadata"]["name"]
            nd.pop("spec", None)          # no taint, not cordoned: every node is a valid candidate, only the restarts decide
            a, b = rng.choice([(0, 0), (5, 0), (0, 2), (1, 1), (3, 0), (0, 4), (7, 1)])
            for pre, r_ in (("p-", a), ("q-", b)):
                c["objects"].append(K.pod(worldgen.NS, pre + name, eds_name=worldgen.EDS, rs_name="foo-a",
                                          hash_value="@HASH:foo-a" if has_a else "x", node=name,
                                          cstats=[K.container_status("main", restarts=r_, last_reason="Error" if r_ else None,
                                                                     last_finished=-50 if r_ else None)]))
        c["ops"] = [c["ops"][0], dict(c["ops"][0])]     # the first reconcile may only default the object
        wprop.bump(stats, "directed", "two daemon pods per node with different restart counts")
        out.append(c)
    return out


def nontrivial(c, r):
    for cl in wprop.calls_of(r, "status_update", "ExtendedDaemonSet"):
        import json
        try:
            o = json.loads(cl["obj"]) if isinstance(cl.get("obj"), str) else cl.get("obj")
        except Exception:
            o = None
        if o and (o.get("status") or {}).get("canary"):
            return True
    return False
