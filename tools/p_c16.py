"""C16 - defaulting is a fixed point and no accepted spec can crash the controller."""
import itertools
import json

import k8s as K
import project as P
import worldenc
import worldgen
import wprop
from fw import gB, gN, gC

ID = "C16"
TAGS = ["h_world"]
CHECK_MODULE = "Check.C16Check"
IMPORTS = ["Model.Objects", "Model.PodSpec", "Model.Backoff", "Model.ErsReconcile", "Model.EdsReconcile", "Check.World"]
CORPUS = ["WORLD"]
RULE = ("(a) the real Default / IsDefaulted / Validate on specs from the boundary lattice of every strategy field (absent, 0, negative, 1, "
        "huge, percent, malformed percent; durations 0 / negative / positive; booleans; validation mode unset/auto/manual/other; canary "
        "block absent, empty, partial) for both controller-level default modes; (b) real ExtendedDaemonSet and replica-set Reconciles on "
        "stores holding such specs (defaulted by the real code first), in every role, including the canary role without a canary "
        "strategy. Panics are recovered and classified. Non-trivial = a field was defaulted, validation rejected, or pods were touched.")
ASSUMPTIONS = [
    "the spec type is the Go type (a superset of what the CRD schema accepts)",
    "replica-set sync totality is monitored on every step (a panic with a defaulted, validated parent is a violation); it is "
    "proved for the ExtendedDaemonSet reconcile (all snapshots) and for validation/defaulting (all specs)",
    "percent * total below 2^53 in the reconcile cases; the 'huge' stream only checks for panics",
]
CODES = {
    1: "model does not predict the implementation",
    10: "Default / IsDefaulted / Validate crashed",
    11: "defaulting is not idempotent",
    12: "the defaulted object is not recognised as defaulted",
    14: "Default left unset a field the reconcilers dereference (the model's list of them)",
    17: "the implementation accepts (IsDefaulted and Validate) a spec the model does not: a field the reconcilers dereference is unset, "
        "or a combination that validation has to reject (manual mode with a duration, thresholds out of order, ...)",
    13: "validation crashed on a defaulted spec",
    18: "defaulting changed a value the user set",
    15: "the replica-set sync crashed although the parent's spec is defaulted and valid",
    16: "the ExtendedDaemonSet reconcile crashed",
    20: "harness panic",
}
GO_TIMEOUT = 1500

IOPS = [None, 0, -1, 1, 2, 1000000, "1%", "50%", "100%", "150%", "abc", "-10%", "5"]
DURS = [None, "0s", "-5s", "1s", "60s", "600s", "87600h", "500ms", "1500ms", "1ns"]
INTS = [None, 0, -1, 1, 3, 250, 2147483647]
BOOLS = [None, True, False]
MODES = [None, "auto", "manual", "bogus"]


def gen_spec(rng):
    s = {}
    if rng.random() < 0.8:
        ru = {}
        for k, dom in (("maxUnavailable", IOPS), ("maxPodSchedulerFailure", IOPS), ("maxParallelPodCreation", INTS),
                       ("slowStartIntervalDuration", DURS), ("slowStartAdditiveIncrease", IOPS)):
            v = rng.choice(dom)
            if v is not None:
                ru[k] = v
        s["rollingUpdate"] = ru
    if rng.random() < 0.7:
        c = {}
        for k, dom in (("replicas", IOPS), ("duration", DURS), ("noRestartsDuration", DURS), ("validationMode", MODES)):
            v = rng.choice(dom)
            if v is not None:
                c[k] = v
        if rng.random() < 0.3:
            c["nodeSelector"] = rng.choice([{}, {"matchLabels": {"a": "b"}}])
        if rng.random() < 0.3:
            c["nodeAntiAffinityKeys"] = ["zone"]
        if rng.random() < 0.6:
            ap = {}
            for k, dom in (("enabled", BOOLS), ("maxRestarts", INTS), ("maxSlowStartDuration", DURS)):
                v = rng.choice(dom)
                if v is not None:
                    ap[k] = v
            c["autoPause"] = ap
        if rng.random() < 0.6:
            af = {}
            for k, dom in (("enabled", BOOLS), ("maxRestarts", INTS), ("maxRestartsDuration", DURS), ("canaryTimeout", DURS)):
                v = rng.choice(dom)
                if v is not None:
                    af[k] = v
            c["autoFail"] = af
        s["canary"] = c
    v = rng.choice(DURS)
    if v is not None:
        s["reconcileFrequency"] = v
    return s


def gen_full_spec(rng, canary):
    """every field set (what a stored, already defaulted object looks like), with boundary values"""
    nn = lambda dom: rng.choice([x for x in dom if x is not None])
    s = {"rollingUpdate": {"maxUnavailable": nn(IOPS), "maxPodSchedulerFailure": nn(IOPS), "maxParallelPodCreation": nn(INTS),
                           "slowStartIntervalDuration": nn(DURS), "slowStartAdditiveIncrease": nn(IOPS)},
         "reconcileFrequency": nn(DURS)}
    if canary:
        mode = rng.choice(["auto", "manual"])
        c = {"replicas": nn(IOPS), "validationMode": mode, "nodeSelector": rng.choice([{}, {"matchLabels": {"a": "b"}}]),
             "autoPause": {"enabled": rng.random() < 0.5, "maxRestarts": nn(INTS)},
             "autoFail": {"enabled": rng.random() < 0.5, "maxRestarts": nn(INTS)}}
        if mode == "auto" or rng.random() < 0.2:
            c["duration"] = nn(DURS)
        if rng.random() < 0.3:
            c["noRestartsDuration"] = nn(DURS)
        s["canary"] = c
    return s


def generate(rng, tier, stats):
    out = []
    nd = 500 if tier == "quick" else 12000
    for _ in range(nd):
        out.append({"kind": "c16_default", "strategy": gen_spec(rng), "template_name": rng.choice(["", "", "named"]),
                    "mode": rng.choice(["auto", "manual"])})
    # objects that already went through defaulting (every field set), with and without a canary block, with and without
    # the one thing defaulting removes (a name on the pod template)
    for _ in range(120 if tier == "quick" else 2500):
        out.append({"kind": "c16_default", "strategy": gen_full_spec(rng, rng.random() < 0.6), "template_name": rng.choice(["", "named"]),
                    "mode": rng.choice(["auto", "manual"])})
    # witnesses of the repaired defects
    out.append({"kind": "c16_default", "strategy": {"canary": {"validationMode": "manual", "autoFail": {"canaryTimeout": "60s"}}},
                "template_name": "", "mode": "auto"})
    # reconciles on stores holding boundary specs: undefaulted first (the real code defaults it), then everything syncs
    nw = 140 if tier == "quick" else 2500
    for i in range(nw):
        spec = gen_spec(rng)
        n = rng.choice([1, 2, 3, 4])
        if i % 2 == 0:
            c = worldgen.gen_ers_world(rng, stats, {"open_gates": rng.random() < 0.8, "n": n})
        else:
            c = worldgen.gen_eds_world(rng, stats, {"n": n})
        e = [o for o in c["objects"] if o["kind"] == "ExtendedDaemonSet"][0]
        keep_canary = e["spec"]["strategy"].get("canary")
        if rng.random() < 0.7:
            # a boundary spec, defaulted by the real code in the first step
            e["spec"]["strategy"] = spec
            if keep_canary is not None and "canary" not in spec and rng.random() < 0.5:
                pass      # the canary strategy disappears while status.canary may still name a replica set
            c["ops"] = [K.reconcile("eds", worldgen.NS, worldgen.EDS)] + c["ops"] + [K.reconcile("eds", worldgen.NS, worldgen.EDS),
                                                                                 histgen_all_ers()]
        elif rng.random() < 0.3 and "canary" in e["spec"]["strategy"]:
            del e["spec"]["strategy"]["canary"]
        out.append(c)
    # a fully explicit spec (IsDefaulted accepts it, so the controller never fills anything in) on a canary in flight whose
    # pods restarted: every optional field the reconcilers read (noRestartsDuration, the autoFail / autoPause durations)
    # is absent in most of them
    for i in range(40 if tier == "quick" else 600):
        c = worldgen.gen_eds_world(rng, stats, {"scenario": rng.choice(["canary_running", "canary_running", "canary_failed"]),
                                                "n": rng.choice([2, 3, 4])})
        e = [o for o in c["objects"] if o["kind"] == "ExtendedDaemonSet"][0]
        spec = gen_full_spec(rng, True)
        can = spec["canary"]
        can["validationMode"] = "auto"
        can["duration"] = rng.choice(["1s", "60s", "600s"])
        can["replicas"] = rng.choice([1, 2, "50%"])
        spec["reconcileFrequency"] = "10s"
        spec["rollingUpdate"].update({"maxUnavailable": 1, "maxPodSchedulerFailure": 1, "maxParallelPodCreation": 250,
                                      "slowStartIntervalDuration": "60s", "slowStartAdditiveIncrease": 5})
        e["spec"]["strategy"] = spec
        for o in c["objects"]:
            if o["kind"] == "ExtendedDaemonSetReplicaSet" and o["metadata"]["name"] == "foo-b":
                conds = o["status"].setdefault("conditions", [])
                if not any(x["type"] == "PodRestarting" for x in conds):
                    conds.append(K.cond("PodRestarting", "True", trans=-400, update=rng.choice([-301, -30, -5])))
        c["ops"] = c["ops"] + [histgen_all_ers(), K.reconcile("eds", worldgen.NS, worldgen.EDS)]
        wprop.bump(stats, "explicit spec without the optional durations, canary pods restarted", "noRestartsDuration" if "noRestartsDuration" in can else "absent")
        out.append(c)
    return out


def histgen_all_ers():
    op = K.reconcile("ers", worldgen.NS, "*")
    op["seconds"] = 0
    return op


def g_strategy(s):
    return P.g_strategy(s)


def encode(c, r):
    if c["kind"] != "c16_default":
        if r.get("panic"):
            return None
        lits = []
        for st in (r["out"].get("steps") or []):
            l = worldenc.encode_step(st, c["options"])
            if l is not None:
                # the implementation's own verdict on the ExtendedDaemonSet(s) of the step's pre-state
                acc = all(o.get("_accepted") for o in (st.get("pre") or []) if o.get("kind") == "ExtendedDaemonSet")
                lits.append("(W %s %s)" % (gB(acc), l))
        return lits
    if r.get("panic"):
        mode = "VAuto" if c["mode"] == "auto" else "VManual"
        s = g_strategy(c["strategy"])
        lit = gC("Dflt", mode, s, gB(bool(c["template_name"])), s, "false", s, "false", "false", gN(99), "true")
        return P.finish(lit)[0]
    o = r["out"]
    mode = {"auto": "VAuto", "manual": "VManual"}.get(c["mode"], "VOtherMode")
    lit = gC("Dflt", mode, g_strategy(c["strategy"]), gB(bool(c["template_name"])), g_strategy(o["defaulted"]),
             gB(bool(o["defaulted_name"])), g_strategy(o["twice"]), gB(o["is_defaulted_before"]), gB(o["is_defaulted_after"]),
             gN(o["validate"]), "false")
    return P.finish(lit)[0]


def classify_unencodable(c, r):
    return (20, "the harness itself panicked: " + r.get("panic", "")[:200])


def nontrivial(c, r):
    if c["kind"] == "c16_default":
        o = r.get("out") or {}
        return (not o.get("is_defaulted_before")) or o.get("validate") != 0
    return bool(wprop.calls_of(r))


def sample(c, r):
    if c["kind"] == "c16_default":
        return {"spec": c["strategy"], "mode": c["mode"], "validate": (r.get("out") or {}).get("validate")}
    return wprop.sample(c, r)
