"""C11 - any failed API call or controller crash is recovered without breaking safety."""
import copy
import json

import histgen
import k8s as K
import project as P
import worldenc
import wprop
from fw import gB, gL, gC
from wprop import classify_unencodable, sample  # noqa: F401

ID = "C11"
TAGS = ["h_world"]
CHECK_MODULE = "Check.C11Check"
IMPORTS = ["Model.Objects", "Model.PodSpec", "Model.Backoff", "Model.ErsReconcile", "Model.EdsReconcile", "Check.World"]
RULE = ("scenario corpus (first deployment, rolling update, canary start, promotion by validation, failure and rollback, node removal, "
        "settings change) on 3-4 nodes: the failure-free run is recorded; then the run is repeated with ONE fault at the k-th API "
        "write issued by the reconciles, for k over the writes of the failure-free run (every k in the thorough tier, every third "
        "with one kind in the quick tier) and - in both tiers - at every write of the ExtendedDaemonSet controller (status, "
        "object update, replica-set creation and deletion: the multi-write protocols) with each fault kind (call rejected; call applied but answer lost; process stop before the write; "
        "process stop after the write - a fresh controller instance with empty memory takes over); thorough adds pairs of faults "
        "for the three shortest scenarios. Every reconcile step runs the safety monitors of C01, C03, C04, C05 and C12; then "
        "failure-free fair rounds run to rest, where the C02 monitors apply and the final pods and status are compared with the "
        "failure-free run (modulo generated names and timestamps). Non-trivial = the fault actually hit a write.")
ASSUMPTIONS = [
    "faults are single (pairs in the thorough tier); after the fault every call succeeds and rounds are fair",
    "no time-triggered canary transition separates the faulted run from the failure-free one (the scenarios use manual "
    "validation or validate/fail explicitly); a user command is issued twice, one round apart, so that a fault which delays "
    "its precondition by a round does not turn it into a refused command (a repeated command is refused or idempotent)",
    "a process stop is a panic inside the intercepted call, after which fresh reconciler instances (empty back-off memory) are used",
]
CODES = {
    1: "model does not predict the reconcile",
    30: "C01: a pod was created for a node that is not listed, not fit, or already holds a live pod",
    31: "C01: two pods created for one node in the same sync", 32: "C01: an inert replica set touched pods",
    33: "C01: an Unknown-phase pod was deleted", 34: "C01: duplicates not resolved", 35: "C01: a pod on an ineligible node was kept",
    36: "C01: an idle sync touched pods",
    40: "C03: availability budget exceeded", 41: "C03: available pod deleted before an unavailable one", 42: "C03: more than maxUnavailable update-deletions",
    43: "C03: deletion outside update and clean-up",
    50: "C04: canary pod created off the canary nodes", 51: "C04: active replica set touched a canary node", 52: "C04: created pod identity",
    53: "C04: canary label added wrongly", 54: "C04: canary label removed wrongly", 56: "C04: canary pod left unlabelled", 58: "C04: canary list overshoot",
    60: "C05: promotion without the rule allowing it", 61: "C05: active set to a foreign replica set", 62: "C05: failed canary promoted",
    63: "C05: manual mode promoted by time", 64: "C05: missing active not adopted", 65: "C05: no wake-up",
    70: "C12: foreign pod deleted", 71: "C12: foreign pod relabelled", 72: "C12: pod created outside its own", 73: "C12: replica set acted for another owner",
    74: "C12: objectless reconcile wrote", 75: "C12: foreign replica set deleted", 76: "C12: replica set created outside", 77: "C12: foreign counters",
    78: "C12: foreign replica set adopted", 79: "C12: another ExtendedDaemonSet updated",
    80: "at rest an eligible node does not run exactly one Ready live-template pod", 81: "at rest a daemon pod remains on an ineligible node",
    82: "the last two fair rounds were not silent", 83: "at rest the status counters are off", 84: "at rest the active replica set is not the live template's",
    86: "the final pods / status differ from the failure-free run",
    20: "harness panic",
}
GO_TIMEOUT = 3000
NS, EDS = histgen.NS, histgen.EDS
TAIL = 14


def base_store(n, canary):
    objs = [K.node("n%d" % i, labels={"role": "w", "zone": "a" if i % 2 else "b"}) for i in range(n)]
    can = K.default_canary(replicas=1, duration=None, mode="manual", no_restarts=None) if canary else None
    strat = K.default_strategy(canary=can, freq=10, max_unavailable=2, max_sched_failure=0, max_parallel=250, interval=1, increase=5)
    objs.append(K.eds(NS, EDS, K.template(image="img:1"), strategy=strat, status=K.eds_status()))
    return objs


def rounds(k, order=0):
    ops = []
    for i in range(k):
        ops += [histgen.kubelet("all"), K.sleep(61), K.reconcile("setting", NS, "*"), histgen.rec_eds(),
                histgen.rec_all_ers(None, NS, order=(order + i) % 3)]
    return ops


def scenarios():
    """name -> (objects, prefix ops whose writes are fault candidates)"""
    S = {}
    S["first_deployment"] = (base_store(3, False), rounds(3))
    S["rolling_update"] = (base_store(4, False), rounds(3) + [histgen.edit("ExtendedDaemonSet", NS, EDS, "image:img:2")] + rounds(4, 1))
    S["canary_start"] = (base_store(3, True), rounds(3) + [histgen.edit("ExtendedDaemonSet", NS, EDS, "image:img:2")] + rounds(3, 1))
    S["promotion"] = (base_store(3, True), rounds(3) + [histgen.edit("ExtendedDaemonSet", NS, EDS, "image:img:2")] + rounds(2, 1) +
                      [K.cmd("canary_validate", NS, EDS)] + rounds(1, 2) + [K.cmd("canary_validate", NS, EDS)] + rounds(4, 2))
    S["failure_rollback"] = (base_store(3, True), rounds(3) + [histgen.edit("ExtendedDaemonSet", NS, EDS, "image:img:2")] + rounds(2, 1) +
                             [K.cmd("canary_fail", NS, EDS)] + rounds(1, 2) + [K.cmd("canary_fail", NS, EDS)] + rounds(4, 2))
    S["node_removal"] = (base_store(4, False), rounds(3) + [K.delete("Node", "", "n1"), histgen.edit("Node", "", "n2", "taint:dedicated=gpu:NoExecute")] + rounds(3, 1))
    objs = base_store(3, False)
    objs.append(K.setting(NS, "set0", EDS, {"matchLabels": {"zone": "a"}}, [("main", {"limits": {"cpu": "1"}})], status=""))
    set2 = K.setting(NS, "set0", EDS, {"matchLabels": {"zone": "a"}}, [("main", {"limits": {"cpu": "2"}})], status="valid")
    S["settings_change"] = (objs, [K.reconcile("setting", NS, "set0")] + rounds(3) + [K.apply(set2)] + rounds(3, 1))
    # a declared migration: the nodes still run the pods of the old DaemonSet, which the replica set adopts and replaces
    objs = base_store(3, False)
    for o in objs:
        if o["kind"] == "ExtendedDaemonSet":
            o["metadata"].setdefault("annotations", {})[P.A_OLD_DS] = "legacy"
    objs.append(K.daemonset(NS, "legacy", selector={"matchLabels": {"ds": "legacy"}}))
    for i in range(3):
        objs.append(K.pod(NS, "legacy-n%d" % i, node="n%d" % i, labels={"ds": "legacy"}, ds_owner="legacy", ready=True))
    S["migration"] = (objs, rounds(5))
    return S


def mk_case(name, objs, prefix, fault, tail=TAIL):
    ops = copy.deepcopy(prefix)
    c = {"kind": "world", "objects": copy.deepcopy(objs), "ops": ops, "options": {"affinity": False, "default_mode": "auto"},
         "scenario": name, "tail_rounds": tail}
    if fault:
        c["global_fault"] = fault
    for k in range(tail):
        rnd = [histgen.kubelet("all"), K.sleep(61), K.reconcile("setting", NS, "*"), histgen.rec_eds(), histgen.rec_all_ers(None, NS, order=k % 3)]
        if 2 <= k < tail - 2:
            for o in rnd:
                o["nodump"] = True
        ops += rnd
    return c


# writes of the failure-free prefix per scenario, measured once (upper bounds; a k beyond the run is a no-op)
MAXK = {"migration": 22, "first_deployment": 14, "rolling_update": 34, "canary_start": 24, "promotion": 40, "failure_rollback": 40,
        "node_removal": 30, "settings_change": 30}
# writes of the ExtendedDaemonSet controller in the failure-free run (on the ExtendedDaemonSet, replica-set creation and
# deletion): few, and each sits between two others of a multi-write protocol - all of them get all four fault kinds
MAXCTL = {"migration": 5, "first_deployment": 5, "rolling_update": 12, "canary_start": 8, "promotion": 13, "failure_rollback": 11,
          "node_removal": 6, "settings_change": 7}
KINDS = ["reject", "lost", "stop_before", "stop_after"]


def generate(rng, tier, stats):
    out = []
    S = scenarios()
    for name, (objs, prefix) in S.items():
        out.append(mk_case(name, objs, prefix, None))         # the failure-free run: the baseline, first
        ks = range(1, MAXK[name] + 1)
        for k in ks:
            kinds = KINDS if tier != "quick" else [KINDS[(k + len(name)) % 4]]
            if tier == "quick" and k % 3 != 1:
                continue
            for kind in kinds:
                out.append(mk_case(name, objs, prefix, {"k": k, "kind": kind}))
                wprop.bump(stats, "fault kind", kind)
        for k in range(1, MAXCTL[name] + 1):
            for kind in KINDS:
                out.append(mk_case(name, objs, prefix, {"k": k, "kind": kind, "on": "control"}))
                wprop.bump(stats, "fault kind (ExtendedDaemonSet controller write)", kind)
        # faults on the read side: a List (or, in the migration, the Get of the old DaemonSet) of one reconcile of the
        # prefix fails - nothing may be decided on what was not read
        recs = [i for i, o in enumerate(prefix) if o.get("op") == "reconcile" and o.get("ctrl") in ("eds", "ers")]
        for j, i in enumerate(recs):
            if tier == "quick" and j % 4 != (len(name) % 4):
                continue
            ctrl = prefix[i]["ctrl"]
            kinds = ([{"list_fail": ["ExtendedDaemonSetReplicaSet"]}, {"list_fail": ["Pod"]}, {"list_fail": ["Node"]}] if ctrl == "eds" else
                     [{"list_fail": ["Pod"]}, {"list_fail": ["Node"]}] + ([{"get_fail": ["DaemonSet"]}] * 2 if name == "migration" else []))
            for f in (kinds if tier != "quick" else [kinds[j % len(kinds)]] + ([{"get_fail": ["DaemonSet"]}] if name == "migration" and ctrl == "ers" else [])):
                c = mk_case(name, objs, prefix, None)
                c["ops"][i]["faults"] = dict(f)
                c["read_fault"] = True
                out.append(c)
                wprop.bump(stats, "fault on a read", "%s %s" % (ctrl, sorted(f.items())[0]))
        wprop.bump(stats, "scenarios", name)
    return out


def projection(fin):
    """pods and status at rest, modulo generated names and timestamps"""
    pods = sorted((p["spec"].get("nodeName", ""), (p["metadata"].get("annotations") or {}).get(P.A_HASH, ""),
                   bool([c for c in (p.get("status") or {}).get("conditions") or [] if c["type"] == "Ready" and c["status"] == "True"]),
                   json.dumps(p["spec"]["containers"][0].get("resources") or {}, sort_keys=True))
                  for p in worldenc.by_kind(fin, "Pod"))
    e = worldenc.find(fin, "ExtendedDaemonSet", NS, EDS) or {}
    st = dict((e.get("status") or {}))
    st.pop("conditions", None)
    act = st.pop("activeReplicaSet", "")
    can = st.pop("canary", None)
    rs_hash = {r["metadata"]["name"]: (r["metadata"].get("annotations") or {}).get(P.A_HASH) for r in worldenc.by_kind(fin, "ExtendedDaemonSetReplicaSet")}
    st["active_hash"] = rs_hash.get(act)
    st["canary"] = None if not can else (rs_hash.get(can.get("replicaSet")), sorted(can.get("nodes") or []))
    st["template"] = e.get("_tmplHash")
    return json.dumps({"pods": pods, "status": st}, sort_keys=True)


BASELINE = {}


def encode(c, r):
    if r.get("panic"):
        return None
    lits = []
    steps = r["out"].get("steps") or []
    for st in steps:
        l = worldenc.encode_step(st, c["options"])
        if l is not None:
            lits.append("(W %s)" % l)
    fin = r["out"].get("final") or []
    e = worldenc.find(fin, "ExtendedDaemonSet", NS, EDS)
    proj = projection(fin)
    if not c.get("global_fault") and not c.get("read_fault"):
        BASELINE[c["scenario"]] = proj
    same = BASELINE.get(c["scenario"]) == proj
    tail = []
    n_k = 0
    cur = []
    for st in reversed(steps):
        cur.append(st)
        if st["op"].get("op") == "kubelet":
            tail.append(cur)
            cur = []
            n_k += 1
            if n_k == 2:
                break
    silent = all(not [cl for st in rnd for cl in st.get("calls") or [] if cl["kind"] in ("Pod", "ExtendedDaemonSetReplicaSet") and cl["verb"] in ("create", "delete")] for rnd in tail)
    if e is not None:
        lit = gC("Final", P.g_eds(e), gL([P.g_ers(x) for x in worldenc.by_kind(fin, "ExtendedDaemonSetReplicaSet")]),
                 gL([P.g_node(x, NS, EDS, ["main"]) for x in worldenc.by_kind(fin, "Node")]),
                 gL([P.g_pod(x) for x in worldenc.by_kind(fin, "Pod")]), gB(silent), gB(same))
        lits.append(P.finish(lit)[0])
    return lits


def nontrivial(c, r):
    if not c.get("global_fault"):
        return True      # the baselines and the read faults
    for st in ((r.get("out") or {}).get("steps") or []):
        if st.get("stopped") or any(cl.get("failed") for cl in st.get("calls") or []):
            return True
    return False
