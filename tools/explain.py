"""Debug aid: prints what the model predicts for one step of a world case next to what was observed.
usage: explain.py <replay.json | rundir-case-index> [step]"""
import json
import os
import subprocess
import sys

sys.path.insert(0, os.path.dirname(os.path.abspath(__file__)))
import fw
import worldenc


def main():
    if sys.argv[1].startswith("run:"):
        _, prop, cid, stepno = sys.argv[1].split(":")
        rundir = os.path.join(fw.BUILD, "run", prop)
        case = [json.loads(l) for l in open(os.path.join(rundir, "cases.jsonl"))][int(cid)]
        res = [json.loads(l) for l in open(os.path.join(rundir, "cases.out.jsonl"))][int(cid)]
        step_no = int(stepno)
    else:
        payload = json.load(open(sys.argv[1]))
        step_no = int(sys.argv[2]) if len(sys.argv) > 2 and sys.argv[2].isdigit() else payload.get("first_mismatch", {}).get("step", payload.get("step", 0))
        fm = payload.get("first_mismatch") or payload
        case = fm["case"]
        res = fm.get("result") or payload.get("observed")
    steps = [s for s in res["out"]["steps"] if s["op"].get("op") == "reconcile" and s.get("pre") is not None and not s.get("stopped")]
    st = steps[step_no]
    lit = worldenc.encode_step(st, case["options"])
    d = os.path.join(fw.BUILD, "explain")
    os.makedirs(d, exist_ok=True)
    f = os.path.join(d, "explain.v")
    with open(f, "w") as fh:
        fh.write("From Coq Require Import String ZArith NArith List.\nImport ListNotations.\n")
        fh.write("From EDS Require Import Model.Base Model.Objects Model.PodSpec Model.Backoff Model.Filter Model.Rolling Model.Canary Model.ErsReconcile Model.EdsReconcile Check.World.\n")
        fh.write("Definition c : World.case := %s.\n" % lit)
        fh.write("Eval vm_compute in (step_ok c, diag c).\n")
        if "--full" not in sys.argv:
            fh.write("(*\n")
        fh.write("Eval vm_compute in (match c with CErs sn obs => Some (ers_sync sn (choice_of obs)) | _ => None end).\n")
        fh.write("Eval vm_compute in (match c with CEds sn obs => Some (eds_sync sn) | _ => None end).\n")
        fh.write("Eval vm_compute in (match c with CErs sn obs => Some obs | _ => None end).\n")
        fh.write("Eval vm_compute in (match c with CEds sn obs => Some obs | _ => None end).\n")
        fh.write("Eval vm_compute in (match c with CErs sn obs => Some (sn_rs sn, sn_eds sn) | _ => None end).\n")
        if "--full" not in sys.argv:
            fh.write("*)\n")
    rc, out = fw.sh(["coqc", "-Q", fw.COQ, "EDS", f], 300, cwd=d)
    print(out)
    if "--objects" in sys.argv:
        for o in st["pre"]:
            if o["kind"] in ("Pod",):
                print(o["kind"], o["metadata"]["name"], o["metadata"].get("labels"), o["metadata"].get("annotations"), o["spec"].get("nodeName"), o["status"].get("phase"), o["metadata"].get("deletionTimestamp"))
            elif o["kind"] == "Node":
                print(o["kind"], o["metadata"]["name"], o["metadata"].get("labels"), o["metadata"].get("annotations"), o.get("spec"))
            else:
                print(json.dumps(o)[:1500])
    print("OP", json.dumps(st["op"]))
    print("CALLS", json.dumps([{k: v for k, v in c.items() if k != "obj"} for c in st["calls"]]))
    print("RESULT", st.get("requeue"), st.get("requeue_after"), st.get("err"), st.get("panic"))


main()
