"""C17 - concurrent reconciles and parallel pod operations are race free and lose no error."""
import re

import histgen
import k8s as K
import worldenc
import worldgen
import wprop
from fw import gZ
from wprop import classify_unencodable, sample  # noqa: F401

ID = "C17"
TAGS = ["h_world"]
RACE = True          # the harness binary is built with -race
CHECK_MODULE = "Check.C17Check"
IMPORTS = ["Model.Objects", "Model.PodSpec", "Model.Backoff", "Model.ErsReconcile", "Model.EdsReconcile", "Model.Fanin", "Check.World"]
RULE = ("harness built with Go's race detector. (a) real replica-set Reconciles issuing batches of 2-64 simultaneous pod creations, "
        "update-deletions and clean-up deletions (64-node stores; slow start and maxUnavailable opened up) with none, some or all "
        "of the API calls failing (rejected, or applied with the answer lost) and sometimes the status write failing: the number of "
        "leaf errors in the returned aggregate, the ReconcileError and the PodsCleanupDone conditions are compared with the injected "
        "failures; (b) the four real reconcilers and a kubelet goroutine running concurrently against one store for several rounds, "
        "during rollouts and canaries, with and without failing calls. Any 'DATA RACE' report of the detector is a violation. "
        "Non-trivial = the step ran a batch of at least two parallel pod operations, or a concurrent section ran.")
ASSUMPTIONS = [
    "PARTIAL: absence of data races is observed by the race detector on the schedules the runtime produced in this run, not proved; "
    "the theorems prove that atomic collection loses no error under any schedule and that the unsynchronised append can",
    "which discipline a helper uses (channel / mutex) is read from the code; the detector is the tie for that reading",
]
OPEN_STATEMENTS = ["race freedom for all goroutine interleavings: not provable in an executable model of the logic (DESIGN.md 10)"]
CODES = {
    1: "model does not predict the reconcile",
    10: "the number of errors in the returned aggregate differs from the number of failed pod operations",
    11: "the ReconcileError condition does not reflect the failed pod operations",
    12: "the PodsCleanupDone condition does not reflect the clean-up deletions",
    13: "pod operations failed but the sync returned no error",
    30: "the race detector reported a data race",
    20: "harness panic",
}
GO_TIMEOUT = 2400
GO_REPS = 1


def big_batch(rng, stats):
    n = rng.choice([2, 4, 8, 16, 32, 64])
    kind = rng.choice(["create", "delete", "cleanup", "mixed"])
    classes = {"create": ["none"], "delete": ["old_ready", "old_notready"], "cleanup": ["dup", "failed", "old_ready"],
               "mixed": ["none", "old_ready", "dup", "failed", "uptodate_ready"]}[kind]
    force = {"scenario": rng.choice(["active", "active", "canary"]), "n": n, "classes": classes, "open_gates": True, "no_faults": True,
             "canary_k": n, "annotations": {},
             "strategy": {"maxUnavailable": "100%", "slowStartAdditiveIncrease": "100%", "maxParallelPodCreation": 250,
                          "maxPodSchedulerFailure": 0, "reconcileFrequency": 10}}
    c = worldgen.gen_ers_world(rng, None, force)
    # every node eligible: plain template on every replica set / the ExtendedDaemonSet
    for o in c["objects"]:
        if o["kind"] in ("ExtendedDaemonSet", "ExtendedDaemonSetReplicaSet"):
            sp = o["spec"]["template"]["spec"]
            sp.pop("nodeSelector", None)
            sp.pop("affinity", None)
            sp["tolerations"] = [{"operator": "Exists"}]
    mode = rng.choice(["none", "some", "all"])
    f = None
    if mode != "none":
        nodes = [o["metadata"]["name"] for o in c["objects"] if o["kind"] == "Node"]
        pods = [o["metadata"]["name"] for o in c["objects"] if o["kind"] == "Pod"]
        f = {"create_nodes": nodes if mode == "all" else rng.sample(nodes, max(1, len(nodes) // 2)),
             "delete_pods": pods if mode == "all" else (rng.sample(pods, max(1, len(pods) // 2)) if pods else [])}
        if rng.random() < 0.2:
            f["status"] = True
        if rng.random() < 0.3:
            f["lost"] = True
        if rng.random() < 0.35 and pods:
            # the only failures of this sync are deletions of pods that vanished meanwhile (the API answers NotFound):
            # an error like any other
            f = {"delete_gone": pods if mode == "all" else rng.sample(pods, max(1, len(pods) // 2))}
            wprop.bump(stats, "deletions answered NotFound (the pod vanished)", mode)
    c["ops"][0]["faults"] = f
    c["ops"] = c["ops"][:1]
    wprop.bump(stats, "batch size", n)
    wprop.bump(stats, "batch kind", kind)
    wprop.bump(stats, "failing calls", mode)
    return c


def concurrent_case(rng, stats):
    n = rng.choice([3, 5, 8])
    objs = histgen.initial_store(rng, n, canary=rng.random() < 0.6)
    if rng.random() < 0.5:
        objs.append(K.setting(histgen.NS, "set0", histgen.EDS, {"matchLabels": {"zone": "a"}}, [("main", {"limits": {"cpu": "1"}})], status=""))
        objs.append(K.setting(histgen.NS, "set1", histgen.EDS, {"matchLabels": {"role": "w"}}, [("main", {"limits": {"cpu": "2"}})], status=""))
    ops = histgen.rollout_ops(rng, 2)
    for _ in range(rng.choice([2, 3, 4])):
        op = {"op": "concurrent", "seconds": rng.choice([2, 3, 5])}
        if rng.random() < 0.4:
            op["faults"] = rng.choice([{"create_nodes": ["*"]}, {"delete_pods": ["*"]}, {"status": True}, {"patch_pods": ["*"]}])
        ops += [op, K.sleep(rng.choice([1, 11, 61]))]
        if rng.random() < 0.5:
            ops.append(histgen.edit("ExtendedDaemonSet", histgen.NS, histgen.EDS, "image:" + rng.choice(["img:2", "img:3"])))
    wprop.bump(stats, "concurrent sections", len([o for o in ops if o["op"] == "concurrent"]))
    return {"kind": "world", "objects": objs, "ops": ops, "options": {"affinity": rng.random() < 0.3, "default_mode": "auto"}}


def generate(rng, tier, stats):
    out = []
    for _ in range(70 if tier == "quick" else 1200):
        out.append(big_batch(rng, stats))
    for _ in range(16 if tier == "quick" else 300):
        out.append(concurrent_case(rng, stats))
    return out


def encode(c, r):
    if r.get("panic"):
        return None
    lits = []
    for st in (r["out"].get("steps") or []):
        op = st["op"]
        l = worldenc.encode_step(st, c["options"])
        if l is None:
            continue
        if op.get("ctrl") == "ers" and l.startswith("(CErs "):
            lits.append("(EC %s %s)" % (l[len("(CErs "):-1], gZ(st.get("err_count", 0))))
        else:
            lits.append("(W %s)" % l)
    return lits


def judge_run(rc, txt, cases, results, stats):
    races = len(re.findall(r"WARNING: DATA RACE", txt or ""))
    stats["race_reports"] = races
    stats["goroutine_schedules_observed"] = "one per parallel batch and per concurrent section of this run"
    if races:
        m = re.search(r"WARNING: DATA RACE.*?(?:\n==================|\Z)", txt, flags=re.S)
        return [{"codes": [30], "what": "the race detector reported %d data race(s)" % races,
                 "case": {"kind": "race-report", "report": (m.group(0) if m else "")[:6000]}, "result": {}}]
    return []


def nontrivial(c, r):
    for st in ((r.get("out") or {}).get("steps") or []):
        if st["op"].get("op") == "concurrent":
            return True
        if len([cl for cl in st.get("calls") or [] if cl["kind"] == "Pod"]) >= 2:
            return True
    return False
