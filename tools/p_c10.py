"""C10 - created pods are pinned, labelled and stable under the controller's comparison."""
import copy
import json

import histgen
import k8s as K
import project as P
import worldgen
import wprop
from wprop import encode, classify_unencodable, sample  # noqa: F401

ID = "C10"
TAGS = ["h_world"]
CHECK_MODULE = "Check.C10Check"
IMPORTS = ["Model.Objects", "Model.PodSpec", "Model.Backoff", "Model.ErsReconcile", "Model.EdsReconcile", "Check.World"]
RULE = ("(a) real replica-set Reconciles (active and canary roles, both node-assignment modes) on stores whose templates have one or "
        "two containers, node selectors, affinity with zero/one/several terms, tolerations; nodes with override annotations per "
        "container (well formed, malformed, for another ExtendedDaemonSet incl. the dotted-name corner); valid / invalid settings "
        "with entries for some containers: every pod passed to Create is judged; (b) create -> kubelet -> sync again on the same "
        "inputs (nothing may be replaced), then one perturbation - a node override annotation added/changed/removed, a setting value "
        "changed, the template changed - and another sync. Non-trivial = a pod was created or a pod deletion was issued.")
ASSUMPTIONS = [
    "resource quantities compared by value (milli-units), nil and empty maps identified (apiequality.Semantic)",
    "a required node affinity, when present in the template, has at least one term (API validation)",
    "resource maps of settings have distinct keys (Go maps)",
]
CODES = {
    1: "model does not predict the replica-set sync",
    10: "a created pod is not bound to exactly the node it was created for",
    11: "a created pod lacks the owner, name labels, template hash, node hash, autoscaler annotation or default tolerations",
    12: "a created pod's container resources are not 'override, else setting, else template'",
    13: "a pod that is exactly what would be created now was deleted in order to update it",
    20: "harness panic",
}
GO_TIMEOUT = 1500


def generate(rng, tier, stats):
    out = []
    for i in range(260 if tier == "quick" else 4500):
        conts = rng.choice([("main",), ("main",), ("main", "side")])
        force = {"scenario": rng.choice(["active", "active", "canary", "active_with_canary"]), "open_gates": True,
                 "no_faults": rng.random() < 0.95, "containers": conts, "rich_resources": True, "n": rng.choice([2, 3, 4, 6]),
                 "classes": ["none", "none", "none", "uptodate_ready", "old_ready", "uptodate_notready"],
                 "strategy": {"maxUnavailable": rng.choice([1, "100%"]), "slowStartAdditiveIncrease": rng.choice([5, "100%"]),
                              "reconcileFrequency": rng.choice([1, 10])},
                 "annotations": {}}
        c = worldgen.gen_ers_world(rng, stats, force)
        target = c["ops"][0]["name"]
        # create -> kubelet -> same inputs again -> perturb -> again
        ops = [c["ops"][0], histgen.kubelet("all"), K.sleep(11), K.reconcile("ers", worldgen.NS, target)]
        nodes = [o for o in c["objects"] if o["kind"] == "Node"]
        r = rng.random()
        if nodes and r < 0.45:
            nd = rng.choice(nodes)["metadata"]["name"]
            key = "%s%s.%s.%s" % (P.RES_PREFIX, worldgen.NS, worldgen.EDS, rng.choice(conts))
            ops.append(histgen.edit("Node", "", nd, rng.choice(["annotate:%s=%s" % (key, json.dumps({"limits": {"cpu": rng.choice(["3", "250m", "0.25", "3000m"])}})),
                                                                 "unannotate:" + key, "annotate:%s={broken" % key])))
        elif r < 0.7:
            sets = [o for o in c["objects"] if o["kind"] == "ExtendedDaemonsetSetting"]
            if sets:
                s2 = copy.deepcopy(rng.choice(sets))
                for ent in s2["spec"]["containers"]:
                    ent["resources"] = {"limits": {"cpu": rng.choice(["3", "750m", "0.75", "75e-2", "3000m"])}}
                s2.pop("status", None)
                ops.append(K.apply(s2))
        ops += [K.sleep(11), K.reconcile("ers", worldgen.NS, target), histgen.kubelet("all"), K.sleep(11), K.reconcile("ers", worldgen.NS, target)]
        c["ops"] = ops
        wprop.bump(stats, "containers", len(conts))
        out.append(c)
    # one setting with two containers selecting every node; one node overrides the FIRST container by annotation and already
    # runs a pod (so the comparison runs for it), the others get their pods in the same sync: each pod is built from the
    # setting as it is stored, whatever was compared before
    for i in range(30 if tier == "quick" else 400):
        c = worldgen.gen_ers_world(rng, stats, {"scenario": "active", "open_gates": True, "no_faults": True, "containers": ("main", "side"),
                                                "n": rng.choice([3, 4, 6]), "classes": ["none", "none", "uptodate_ready", "old_ready"],
                                                "strategy": {"maxUnavailable": "100%", "slowStartAdditiveIncrease": "100%", "maxParallelPodCreation": 250},
                                                "annotations": {}})
        c["objects"] = [o for o in c["objects"] if o["kind"] != "ExtendedDaemonsetSetting"]
        nodes = [o for o in c["objects"] if o["kind"] == "Node"]
        for nd in nodes:
            nd["metadata"].setdefault("labels", {})["pool"] = "all"
            nd.get("spec", {}).pop("taints", None)
        c["objects"].append(K.setting(worldgen.NS, "both", worldgen.EDS, {"matchLabels": {"pool": "all"}},
                                      [("main", {"requests": {"cpu": "200m"}}), ("side", {"requests": {"cpu": "300m"}})], status="valid"))
        with_pod = set(o["spec"].get("nodeName") for o in c["objects"] if o["kind"] == "Pod")
        cands = [nd for nd in nodes if nd["metadata"]["name"] in with_pod] or nodes
        key = "%s%s.%s.%s" % (P.RES_PREFIX, worldgen.NS, worldgen.EDS, "main")
        rng.choice(cands)["metadata"].setdefault("annotations", {})[key] = json.dumps({"requests": {"cpu": "50m"}})
        wprop.bump(stats, "two-container setting + override of the first container", "yes")
        out.append(c)
    return out


def nontrivial(c, r):
    return bool(wprop.calls_of(r, "create", "Pod") or wprop.calls_of(r, "delete", "Pod"))
