"""C19 - kubectl-eds commands change only what they document; the controller obeys them."""
import copy
import json

import histgen
import k8s as K
import project as P
import worldenc
import worldgen
import wprop
from fw import gB, gL, gN, gO, gP, gZ, gC
from wprop import classify_unencodable, sample  # noqa: F401

ID = "C19"
TAGS = ["h_world"]
CHECK_MODULE = "Check.C19Check"
IMPORTS = ["Model.Objects", "Model.PodSpec", "Model.Backoff", "Model.ErsReconcile", "Model.EdsReconcile", "Model.Plugin", "Check.World"]
RULE = ("(a) the real command bodies (canary pause / unpause / validate / fail, rolling-update pause / unpause, rollout freeze / "
        "unfreeze) run through the verif shims against stores in every state class - no canary, canary running, auto-paused, "
        "user-paused, failed, mid rolling update, canary strategy removed, canary replica set missing - with every prior value of "
        "the annotations (absent, true, false, other); the stored objects are diffed before/after; (c) a command on a running "
        "canary overtaken by a template change before the next reconcile; (b) histories: the real controllers "
        "reach such states, then sequences of one to three commands are issued and followed by replica-set syncs and "
        "ExtendedDaemonSet reconciles, every step being judged by the pause/state, promotion and rollback monitors. "
        "Non-trivial = a command acted (patched or failed a canary) or was refused for a documented reason.")
ASSUMPTIONS = [
    "merge-patch semantics: a patch built from a deep copy that differs only in annotations changes only those annotations",
    "D13 (DESIGN.md): `canary fail` appends a Canary-Failed entry; an earlier non-true entry would shadow it (first match wins) - "
    "only possible on a replica set that was active before becoming a canary again",
]
CODES = {
    1: "model does not predict the command / reconcile",
    10: "a command changed something other than its documented annotation or condition",
    11: "a command acted although its precondition does not hold",
    14: "a command was refused although its precondition holds and what it asks for is not in place yet",
    13: "after `canary fail` the replica set does not read as failed (an earlier Canary-Failed condition that is not True shadows the one written): no rollback follows",
    12: "the annotations a command leaves do not mean what the command says in the controllers' reading (e.g. paused while canary-unpaused stays true)",
    # the reconciles that follow a command: monitors of C08 (+20), C05 (+30), C07 (+50)
    30: "a pod was deleted for updating while rolling-update-paused is true",
    31: "a pod was created or deleted for updating while rollout-frozen is true",
    32: "a canary pod was created while the canary is paused or failed",
    33: "the canary stayed paused although canary-unpaused is true and it is not failed",
    34: "status.state / status.reason do not reflect the paused, frozen or canary situation",
    35: "a paused canary without the canary-valid annotation was promoted",
    36: "the canary-valid annotation names the (not failed) new replica set but it was not made the active one",
    40: "activeReplicaSet switched to the new replica set although the promotion rule does not allow it (validate names another replica set, ...)",
    41: "activeReplicaSet set to a replica set that is neither the recorded active nor the one matching spec.template",
    42: "a canary marked failed was promoted",
    43: "manual validation mode: promoted without the canary-valid annotation",
    44: "the recorded active replica set is gone but the matching one was not adopted",
    45: "time is missing for the promotion but the reconcile did not ask to be requeued at that moment",
    60: "a status written during the rollback keeps status.canary, changes activeReplicaSet or does not report Canary Failed",
    61: "the object update of the rollback does not restore the active template / clear the canary pause annotations",
    62: "the rollback did not write both the status and the object although nothing was rejected",
    63: "a failed canary replica set was deleted within two minutes of its failure",
    64: "a replica set still reporting pods was deleted",
    65: "the failed canary replica set was deleted while spec.template still names its template",
    20: "harness panic",
}
GO_TIMEOUT = 1800
CMDS = {"canary_pause": "CanaryPause", "canary_unpause": "CanaryUnpause", "canary_validate": "CanaryValidate", "canary_fail": "CanaryFail",
        "ru_pause": "RuPause", "ru_unpause": "RuUnpause", "freeze": "Freeze", "unfreeze": "Unfreeze"}
DOC_KEYS = {"canary_pause": [P.A_PAUSED, P.A_UNPAUSED], "canary_unpause": [P.A_PAUSED, P.A_UNPAUSED], "canary_validate": [P.A_VALID],
            "ru_pause": [P.A_RU_PAUSED], "ru_unpause": [P.A_RU_PAUSED], "freeze": [P.A_FROZEN], "unfreeze": [P.A_FROZEN]}


def strip(o, keys=()):
    o = copy.deepcopy(o)
    md = o.get("metadata", {})
    for k in ("resourceVersion", "managedFields", "generation"):
        md.pop(k, None)
    ann = md.get("annotations") or {}
    for k in keys:
        ann.pop(k, None)
    if ann:
        md["annotations"] = ann
    else:
        md.pop("annotations", None)
    return o


def encode_cmd(st):
    op = st["op"]
    pre, post = st["pre"], st["post"] or []
    e = worldenc.find(pre, "ExtendedDaemonSet", op["ns"], op["name"])
    rss = [r for r in worldenc.by_kind(pre, "ExtendedDaemonSetReplicaSet") if r["metadata"].get("namespace") == op["ns"]]
    calls = st["calls"]
    cmd = op["cmd"]
    same_others = True
    key = lambda o: (o["kind"], o["metadata"].get("namespace", ""), o["metadata"]["name"])
    pre_by, post_by = {key(o): o for o in pre}, {key(o): o for o in post}
    if not calls:
        obs = "ObsRefused" if st.get("cmd_error") and all(strip(pre_by[k]) == strip(post_by.get(k, {})) for k in pre_by) and len(pre_by) == len(post_by) else "ObsOther"
        if not st.get("cmd_error"):
            obs = "ObsOther"
    elif len(calls) == 1 and calls[0]["kind"] == "ExtendedDaemonSet" and calls[0]["verb"] == "patch" and calls[0]["name"] == op["name"] and calls[0]["ns"] == op["ns"] and e is not None:
        pe = post_by.get(("ExtendedDaemonSet", op["ns"], op["name"]))
        keys = DOC_KEYS.get(cmd, [])
        rest = pe is not None and strip(pe, keys) == strip(e, keys) and len(pre_by) == len(post_by)
        for k in pre_by:
            if k != ("ExtendedDaemonSet", op["ns"], op["name"]) and strip(pre_by[k]) != strip(post_by.get(k, {})):
                rest = False
        obs = gC("ObsPatched", P.g_annots((pe or {}).get("metadata", {}).get("annotations")), gB(rest))
    elif len(calls) == 1 and calls[0]["kind"] == "ExtendedDaemonSetReplicaSet" and calls[0]["verb"] == "status_update" and calls[0]["ns"] == op["ns"]:
        k = ("ExtendedDaemonSetReplicaSet", op["ns"], calls[0]["name"])
        pr, po = pre_by.get(k), post_by.get(k)
        rest = pr is not None and po is not None and len(pre_by) == len(post_by)
        if rest:
            a, b = strip(pr), strip(po)
            ca, cb = (a.get("status") or {}).pop("conditions", None), (b.get("status") or {}).pop("conditions", None)
            rest = a == b
        for kk in pre_by:
            if kk != k and strip(pre_by[kk]) != strip(post_by.get(kk, {})):
                rest = False
        conds = [P.g_cond(c, P.ERS_CTYPES) for c in ((po or {}).get("status") or {}).get("conditions") or []]
        obs = gC("ObsFailed", P.nm(calls[0]["name"]), gL(conds), gB(rest))
    else:
        obs = "ObsOther"
    rs_conds = gL([gP(P.nm(r["metadata"]["name"]), gL([P.g_cond(c, P.ERS_CTYPES) for c in (r.get("status") or {}).get("conditions") or []])) for r in rss])
    lit = gC("Cmd", CMDS[cmd], gO(e, P.g_eds), gL([P.nm(r["metadata"]["name"]) for r in rss]), rs_conds, gZ(st["now"]), obs)
    return P.finish(lit)[0]


def encode(c, r):
    if r.get("panic"):
        return None
    lits = []
    for st in (r["out"].get("steps") or []):
        op = st["op"]
        if op.get("op") == "cmd" and st.get("pre") is not None and not st.get("stopped") and not st.get("panic"):
            lits.append(encode_cmd(st))
            continue
        l = worldenc.encode_step(st, c["options"])
        if l is not None:
            lits.append("(W %s)" % l)
    return lits


def generate(rng, tier, stats):
    out = []
    cmds = list(CMDS)
    # (a) every state class x every command, prior annotation values
    for _ in range(220 if tier == "quick" else 3500):
        ann = {}
        for k in (P.A_PAUSED, P.A_UNPAUSED, P.A_RU_PAUSED, P.A_FROZEN):
            v = rng.choice([None, None, "true", "false", "yes"])
            if v is not None:
                ann[k] = v
        if rng.random() < 0.2:
            ann[P.A_VALID] = rng.choice(["foo-b", "foo-a", "foo-zz"])
        c = worldgen.gen_eds_world(rng, stats, {"scenario": rng.choice(["canary_running", "canary_running", "canary_failed", "steady", "new_template", "many_rs", "no_canary_update"]),
                                                "annotations": ann, "no_faults": True})
        ops = []
        for _ in range(rng.choice([1, 2, 3])):
            cm = rng.choice(cmds)
            ops.append(K.cmd(cm, worldgen.NS, rng.choice([worldgen.EDS] * 9 + ["nope"])))
            wprop.bump(stats, "commands", cm)
        ops += [K.reconcile("ers", worldgen.NS, "*"), K.reconcile("eds", worldgen.NS, worldgen.EDS), K.sleep(rng.choice([1, 11, 61])),
                K.reconcile("ers", worldgen.NS, "*"), K.reconcile("eds", worldgen.NS, worldgen.EDS)]
        for o in ops:
            if o.get("op") == "reconcile" and o.get("name") == "*":
                o["seconds"] = rng.randint(0, 3)
        c["ops"] = ops
        out.append(c)
    # (b) histories reached by the real controllers, with commands
    for _ in range(30 if tier == "quick" else 500):
        out.append(histgen.gen_history(rng, stats, canary=True, length=rng.choice([12, 20]), fair_tail=1))
    # (c) a command overtaken by a spec change: validate (pause, fail) the running canary, change the template before the
    # controller reconciles; the command applies to the replica set that was the canary when it ran, not to a later one
    for _ in range(12 if tier == "quick" else 200):
        n = rng.choice([2, 3, 4])
        c = histgen.gen_history(rng, None, n=n, canary=True, length=0)
        e = [o for o in c["objects"] if o["kind"] == "ExtendedDaemonSet"][0]
        can = e["spec"]["strategy"]["canary"]
        can.pop("duration", None)
        can.pop("noRestartsDuration", None)
        can["validationMode"] = "manual"
        ops = c["ops"] + histgen.rollout_ops(rng, 2) + [histgen.edit("ExtendedDaemonSet", histgen.NS, histgen.EDS, "image:img:2")]
        ops += histgen.rollout_ops(rng, 2)
        cm = rng.choice(["canary_validate", "canary_validate", "canary_pause", "canary_fail"])
        ops += [K.cmd(cm, histgen.NS, histgen.EDS), histgen.edit("ExtendedDaemonSet", histgen.NS, histgen.EDS, "image:img:3"),
                histgen.rec_eds(), K.sleep(1), histgen.rec_eds(), histgen.rec_all_ers(rng), histgen.rec_eds()]
        ops += histgen.rollout_ops(rng, 2)
        c["ops"] = ops
        wprop.bump(stats, "command overtaken by a template change", cm)
        out.append(c)
    # (d) a re-used replica set as the canary: A active, B canary, B validated, and - while A still owns pods - the template
    # goes back to A: A (which has been the active replica set before) is now the canary of B; the commands apply to it
    for _ in range(10 if tier == "quick" else 150):
        n = rng.choice([3, 4])
        c = histgen.gen_history(rng, None, n=n, canary=True, length=0)
        e = [o for o in c["objects"] if o["kind"] == "ExtendedDaemonSet"][0]
        can = e["spec"]["strategy"]["canary"]
        can.pop("duration", None)
        can.pop("noRestartsDuration", None)
        can["validationMode"] = "manual"
        can["replicas"] = 1
        e["spec"]["strategy"]["rollingUpdate"]["maxUnavailable"] = 1
        e["spec"]["strategy"]["rollingUpdate"]["maxParallelPodCreation"] = 1
        ops = c["ops"] + histgen.rollout_ops(rng, 3) + [histgen.edit("ExtendedDaemonSet", histgen.NS, histgen.EDS, "image:img:2")]
        ops += histgen.rollout_ops(rng, 2)
        ops += [K.cmd("canary_validate", histgen.NS, histgen.EDS), histgen.rec_eds(), histgen.rec_all_ers(rng), histgen.rec_eds()]
        ops += [histgen.edit("ExtendedDaemonSet", histgen.NS, histgen.EDS, "image:img:1")]
        ops += histgen.rollout_ops(rng, 2)
        cm = rng.choice(["canary_fail", "canary_fail", "canary_pause", "canary_validate"])
        ops += [K.cmd(cm, histgen.NS, histgen.EDS), histgen.rec_eds(), histgen.rec_all_ers(rng), histgen.rec_eds()]
        ops += histgen.rollout_ops(rng, 2)
        c["ops"] = ops
        wprop.bump(stats, "command on a re-used replica set (active before, canary now)", cm)
        out.append(c)
    # (f) a command that lands in the middle of a replica-set reconcile (after its List of the pods): the sync goes on with
    # what it read; its status write meets a conflict when the command changed the replica set (canary fail); the next
    # reconciles obey the command
    for _ in range(8 if tier == "quick" else 120):
        n = rng.choice([2, 3, 4])
        c = histgen.gen_history(rng, None, n=n, canary=True, length=0)
        ops = c["ops"] + histgen.rollout_ops(rng, 2) + [histgen.edit("ExtendedDaemonSet", histgen.NS, histgen.EDS, "image:img:2")]
        ops += histgen.rollout_ops(rng, rng.choice([2, 3]))
        cm = rng.choice(["canary_fail", "canary_fail", "canary_pause", "canary_validate"])
        op = histgen.rec_all_ers(rng)
        op["faults"] = {"mid_cmd": "%s:%s" % (cm, histgen.EDS)}
        ops += [K.sleep(11), op, histgen.rec_eds(), histgen.rec_eds(), histgen.rec_all_ers(rng), histgen.rec_eds()]
        ops += histgen.rollout_ops(rng, 2)
        c["ops"] = ops
        wprop.bump(stats, "command landing in the middle of a replica-set reconcile", cm)
        out.append(c)
    # (e) the long way round to a canary that carries a Canary-Failed condition which is False: B fails as a canary; the
    # canary strategy is taken out and B's template applied again (B becomes active at once: its failed mark is reset to
    # False); the strategy comes back, A is rolled out and validated, then B's template again: B is the canary once more
    for _ in range(6 if tier == "quick" else 80):
        out.append(refailed_canary_history(rng, stats))
    return out


def refailed_canary_history(rng, stats):
    n = rng.choice([3, 4])
    c = histgen.gen_history(rng, None, n=n, canary=True, length=0)
    e = [o for o in c["objects"] if o["kind"] == "ExtendedDaemonSet"][0]
    can = e["spec"]["strategy"]["canary"]
    can.pop("duration", None)
    can.pop("noRestartsDuration", None)
    can["validationMode"] = "manual"
    can["replicas"] = 1
    e["spec"]["strategy"]["rollingUpdate"]["maxUnavailable"] = 1
    e["spec"]["strategy"]["rollingUpdate"]["maxParallelPodCreation"] = 1
    ED = lambda cmd: histgen.edit("ExtendedDaemonSet", histgen.NS, histgen.EDS, cmd)
    step = lambda: [histgen.rec_eds(), histgen.rec_all_ers(rng), histgen.rec_eds()]
    ops = c["ops"] + histgen.rollout_ops(rng, 3)                     # A (img:1) active
    ops += [ED("image:img:2")] + histgen.rollout_ops(rng, 2)        # B canary
    ops += [K.cmd("canary_fail", histgen.NS, histgen.EDS)] + step()  # B failed, template back to img:1
    ops += [ED("canary:off"), ED("image:img:2")] + step() + histgen.rollout_ops(rng, 1)   # B active at once (no canary strategy)
    ops += [ED("canary:on"), ED("image:img:1")] + histgen.rollout_ops(rng, 2)             # A canary of B
    ops += [K.cmd("canary_validate", histgen.NS, histgen.EDS)] + step()                   # A active, B still owns pods
    ops += [ED("image:img:2")] + histgen.rollout_ops(rng, 2)                              # B canary again
    cm = rng.choice(["canary_fail", "canary_fail", "canary_pause"])
    ops += [K.cmd(cm, histgen.NS, histgen.EDS)] + step() + histgen.rollout_ops(rng, 2)
    c["ops"] = ops
    wprop.bump(stats, "command on a canary that failed, was active and is the canary again", cm)
    return c


def nontrivial(c, r):
    for st in ((r.get("out") or {}).get("steps") or []):
        if st["op"].get("op") == "cmd" and (st.get("calls") or st.get("cmd_error")):
            return True
    return False
