#!/bin/sh
# usage: harmless.sh <patch.diff> - applies a behaviour-preserving change to /repo, runs every quick check, restores /repo.
# Expected: every check ok. A "VIOLATION ... replay=" WITHOUT no-failing-input-found would be a false alarm of a monitor;
# a no-failing-input-found verdict means the correspondence (or a proof) broke on a harmless rewrite: allowed, but worth a look.
cd /verif
git -C /repo apply --check "$1" || { echo "patch does not apply"; exit 2; }
git -C /repo apply "$1"
for c in C01 C02 C03 C04 C05 C06 C07 C08 C09 C10 C11 C12 C13 C14 C15 C16 C17 C18 C19 C20; do
  ./check $c --tier quick 2>&1 | grep "tier=\|VIOLATION"
done
git -C /repo checkout -- .
git -C /repo status --short
