"""C20 - exported metrics match object status; label values match their keys."""
from fw import gZ, gN, gB, gS, gL, gO, gP, gC

ID = "C20"
TAGS = ["h_c20"]
CHECK_MODULE = "Check.C20Check"
IMPORTS = ["Model.Metrics"]
RULE = ("(objects are exported after zero to two earlier versions of themselves - same UID, other labels and counters) label maps of 0-8 ASCII keys over an alphabet with dots, slashes, dashes and forced collisions after "
        "sanitising; ExtendedDaemonSet / replica-set objects with random status counters, canary block, conditions "
        "and state; a case is non-trivial when the label map has a key that sanitising changes or the object has a "
        "canary block or a true condition; distinct = distinct canonical JSON of the case")
ASSUMPTIONS = [
    "label keys are ASCII (API-server validation); one byte = one rune for the regexp replacement",
    "series are compared as multisets of (key, value) pairs: the order chosen by the code is not observed",
    "metric values are integers (float64 of int32 counters / Unix seconds)",
]
CODES = {
    1: "model does not predict the generated series",
    10: "a label-info pair does not carry the value of its own label",
    11: "a sanitised key contains an illegal character",
    12: "a gauge family does not report the status field",
    13: "a series lacks the object's namespace/name labels",
}

KEY_PARTS = ["app", "a.b", "a_b", "a-b", "a/b", "extendeddaemonset.datadoghq.com/name", "team", "x", "k8s.io/role",
             "tier-1", "tier_1", "tier.1", "A", "z9", "service"]
VALS = ["", "foo", "bar", "v1", "true", "agent-7", "x.y"]
REASONS = ["", "Unknown", "CrashLoopBackOff", "ImagePullBackOff", "OOMKilled"]
STATES = ["", "Running", "RollingUpdate Paused", "Rollout frozen", "Canary", "Canary Paused", "Canary Failed"]


def gen_labels(rng):
    n = rng.choice([0, 0, 1, 2, 3, 4, 6, 8])
    keys = set()
    while len(keys) < n:
        k = rng.choice(KEY_PARTS)
        if rng.random() < 0.3:
            k = k + rng.choice([".", "/", "-", "_"]) + rng.choice(["a", "b", "1"])
        keys.add(k)
    return {k: rng.choice(VALS) for k in sorted(keys)}


def gen_conditions(rng, types):
    conds = []
    for t in types:
        if rng.random() < 0.5:
            conds.append({"type": t, "status": rng.choice(["True", "False", "Unknown"]),
                          "reason": rng.choice(REASONS), "lastTransitionTime": "2000-01-01T00:00:10Z",
                          "lastUpdateTime": "2000-01-01T00:00:20Z"})
    if conds and rng.random() < 0.2:  # a duplicate type: the first one wins
        d = dict(rng.choice(conds))
        d["status"] = rng.choice(["True", "False"])
        conds.append(d)
    return conds


def gen_meta(rng):
    return {"name": rng.choice(["foo", "bar", "eds-1"]), "namespace": rng.choice(["default", "ns2"]),
            "creationTimestamp": "2000-01-0%dT00:00:0%dZ" % (rng.randint(1, 9), rng.randint(0, 9)),
            "labels": gen_labels(rng), "uid": "uid-%d" % rng.randint(1, 4), "generation": rng.choice([1, 1, 2])}


def earlier_versions(rng, obj):
    """the same object (same UID, mostly the same generation: a label edit does not bump it) as it was exported before"""
    import copy
    out = []
    for _ in range(rng.choice([0, 1, 1, 2])):
        o = copy.deepcopy(obj)
        o["metadata"]["labels"] = gen_labels(rng)
        if rng.random() < 0.3:
            o["metadata"]["generation"] = 1
        for k in ("desired", "current", "ready", "available"):
            o["status"][k] = rng.randint(0, 50)
        # ... with another canary block, other conditions and state: nothing of an earlier export may show in a later one
        if "canary" in o["status"] or rng.random() < 0.5:
            if rng.random() < 0.6:
                o["status"]["canary"] = {"replicaSet": rng.choice(["foo-old", "foo-x"]), "nodes": ["n%d" % i for i in range(rng.randint(0, 3))]}
            else:
                o["status"].pop("canary", None)
        if "state" in o["status"]:
            o["status"]["state"] = rng.choice(STATES)
        for c_ in o["status"].get("conditions") or []:
            c_["status"] = rng.choice(["True", "False"])
            c_["reason"] = rng.choice(REASONS)
        out.append(o)
    return out


def generate(rng, tier, stats):
    n = 300 if tier == "quick" else 3000
    cases = [
        {"kind": "c20_labels", "labels": {"extendeddaemonset.datadoghq.com/name": "foo"}},
        {"kind": "c20_labels", "labels": {"a.b": "1", "a_b": "2", "a-b": "3"}},
        {"kind": "c20_labels", "labels": {}},
        {"kind": "c20_labels", "labels": {}, "nil_map": True},
    ]
    for _ in range(n):
        r = rng.random()
        if r < 0.5:
            cases.append({"kind": "c20_labels", "labels": gen_labels(rng)})
        elif r < 0.8:
            st = {"desired": rng.randint(0, 50), "current": rng.randint(0, 50), "ready": rng.randint(0, 50),
                  "available": rng.randint(0, 50), "upToDate": rng.randint(0, 50),
                  "ignoredUnresponsiveNodes": rng.randint(0, 5), "activeReplicaSet": "foo-a",
                  "state": rng.choice(STATES)}
            if rng.random() < 0.5:
                st["canary"] = {"replicaSet": rng.choice(["foo-b", "foo-c"]),
                                "nodes": ["n%d" % i for i in range(rng.randint(0, 4))]}
            st["conditions"] = gen_conditions(rng, ["Canary-Paused", "Canary-Failed", "ReconcileError"])
            obj = {"metadata": gen_meta(rng), "spec": {"template": {}, "strategy": {}}, "status": st}
            cases.append({"kind": "c20_eds_metrics", "obj": obj, "before": earlier_versions(rng, obj)})
        else:
            st = {"status": "active", "desired": rng.randint(0, 50), "current": rng.randint(0, 50),
                  "ready": rng.randint(0, 50), "available": rng.randint(0, 50),
                  "ignoredUnresponsiveNodes": rng.randint(0, 5)}
            st["conditions"] = gen_conditions(rng, ["Canary-Failed", "Canary-Paused", "Active"])
            obj = {"metadata": gen_meta(rng), "spec": {"template": {}}, "status": st}
            cases.append({"kind": "c20_ers_metrics", "obj": obj, "before": earlier_versions(rng, obj)})
    stats["kinds"] = {k: sum(1 for c in cases if c["kind"] == k) for k in ("c20_labels", "c20_eds_metrics", "c20_ers_metrics")}
    stats["label_map_sizes"] = {}
    for c in cases:
        m = c.get("labels") if c["kind"] == "c20_labels" else c["obj"]["metadata"]["labels"]
        stats["label_map_sizes"][str(len(m))] = stats["label_map_sizes"].get(str(len(m)), 0) + 1
    return cases


def g_pairs(m):
    return gL([gP(gS(k), gS(v)) for k, v in sorted(m.items())])


def unix(ts):
    import calendar, time as _t
    return calendar.timegm(_t.strptime(ts, "%Y-%m-%dT%H:%M:%SZ"))


def first_cond(conds, t):
    for c in conds or []:
        if c["type"] == t:
            return c
    return None


def g_series(out):
    return gL([gC("MkSeries", gS(s["name"]), gZ(s["value"]),
                  gL([gP(gS(k), gS(v)) for k, v in zip(s["keys"], s["values"])])) for s in out])


def encode(c, r):
    if r.get("panic"):
        return None
    out = r["out"]
    if c["kind"] == "c20_labels":
        return gC("CLabels", g_pairs(c["labels"]), gL([gS(k) for k in out["keys"]]), gL([gS(v) for v in out["values"]]))
    for s in out:
        if not s["exact"] or len(s["keys"]) != len(s["values"]):
            raise ValueError("series not integral or keys/values of different length: %r" % s)
    md, st = c["obj"]["metadata"], c["obj"]["status"]
    if c["kind"] == "c20_eds_metrics":
        can = st.get("canary")
        cp = first_cond(st.get("conditions"), "Canary-Paused")
        paused = cp["reason"] if cp and cp["status"] == "True" else None
        view = gC("MkEdsMV", gS(md["namespace"]), gS(md["name"]), gZ(unix(md["creationTimestamp"])),
                  gZ(st["desired"]), gZ(st["current"]), gZ(st["ready"]), gZ(st["available"]), gZ(st["upToDate"]),
                  gZ(st["ignoredUnresponsiveNodes"]),
                  gO(can, lambda x: gP(gS(x["replicaSet"]), gZ(len(x.get("nodes", []))))),
                  gO(paused, gS), gB(st["state"] == "RollingUpdate Paused"), gB(st["state"] == "Rollout frozen"))
        return gC("CEds", view, g_pairs(md["labels"]), g_series(out))
    cf = first_cond(st.get("conditions"), "Canary-Failed")
    view = gC("MkErsMV", gS(md["namespace"]), gS(md["name"]), gZ(unix(md["creationTimestamp"])),
              gZ(st["desired"]), gZ(st["current"]), gZ(st["ready"]), gZ(st["available"]),
              gZ(st["ignoredUnresponsiveNodes"]), gB(bool(cf and cf["status"] == "True")))
    return gC("CErs", view, g_pairs(md["labels"]), g_series(out))


def classify_unencodable(c, r):
    if r.get("panic"):
        return (20, "the implementation panicked: " + r["panic"][:200])
    return None


def nontrivial(c, r):
    import re
    m = c.get("labels") if c["kind"] == "c20_labels" else c["obj"]["metadata"]["labels"]
    if any(re.search(r"[^a-zA-Z0-9_]", k) for k in m):
        return True
    if c["kind"] != "c20_labels":
        st = c["obj"]["status"]
        return bool(st.get("canary")) or any(x["status"] == "True" for x in st.get("conditions", []))
    return False
