#!/bin/sh
# usage: sweep.sh [seeds...] - every check's quick tier under each seed (default: 1 2 3 4 and the built-in seed); prints the lines that are not ok
cd /verif
SEEDS="${*:-1 2 3 4 default}"
for s in $SEEDS; do
  for c in C01 C02 C03 C04 C05 C06 C07 C08 C09 C10 C11 C12 C13 C14 C15 C16 C17 C18 C19 C20; do
    if [ "$s" = default ]; then ./check $c --tier quick 2>&1 | grep "tier=\|VIOLATION"; else VERIF_SEED=$s ./check $c --tier quick 2>&1 | grep "tier=\|VIOLATION"; fi
  done
done
