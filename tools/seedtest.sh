#!/bin/sh
# usage: seedtest.sh <seed id, e.g. C15> <package dir of the demo test, relative to the repo root> <check ids...>
# Confirms a seeded change (in /tmp/seedout-<id>/) in a scratch worktree, runs the named checks against it in /repo,
# and restores /repo.
set -u
ID=$1; PKG=$2; shift 2
OUT=${SEEDOUT:-/tmp/seedout-$ID}
WT=/tmp/seedverify-$ID
git -C /repo worktree remove --force $WT >/dev/null 2>&1
git -C /repo worktree add --detach $WT HEAD >/dev/null 2>&1 || exit 2
cd $WT
DEMO=$(ls $OUT/*_test.go 2>/dev/null | head -1)
cp "$DEMO" $WT/$PKG/zz_seed_demo_test.go
echo "== demo WITHOUT the change (must pass)"
(cd $WT/$PKG && go test -count=1 -run . . 2>&1 | tail -3)
git apply $OUT/patch.diff || { echo "patch does not apply"; exit 2; }
echo "== demo WITH the change (must fail)"
(cd $WT/$PKG && go test -count=1 -run . . 2>&1 | tail -5)
rm -f $WT/$PKG/zz_seed_demo_test.go
echo "== existing suite WITH the change (must pass; controllers/TestAPIs needs etcd and fails on the pristine tree too)"
(cd $WT && go build ./... && go test -count=1 ./... > /tmp/seedverify-$ID.log 2>&1; echo "root module: $(grep -c '^ok' /tmp/seedverify-$ID.log) packages ok; failing: $(grep '^FAIL' /tmp/seedverify-$ID.log | tr '\n' ' ')"; cd api && go test -count=1 ./... > /tmp/seedverify-$ID.log 2>&1;  echo "api module: $(grep -c '^ok' /tmp/seedverify-$ID.log) packages ok; failing: $(grep '^FAIL' /tmp/seedverify-$ID.log | tr '\n' ' ')"; rm -f /tmp/seedverify-$ID.log)
cd /verif
git -C /repo worktree remove --force $WT
echo "== checks against the change"
git -C /repo apply $OUT/patch.diff || exit 2
for c in "$@"; do ./check $c --tier quick 2>&1 | grep -v "^KNOWN" | tail -2; done
git -C /repo checkout -- .
git -C /repo status --short
