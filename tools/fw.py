"""Shared machinery of the checks: Coq build + axiom audit, harness build and run against /repo's
working tree, sharded evaluation of the correspondence cases by coqc/vm_compute, verdict, replay
files and evidence.  Property plug-ins (tools/p_cXX.py) supply generators and Gallina encoders."""
import fcntl
import hashlib
import json
import os
import random
import re
import shutil
import subprocess
import sys
import time
from concurrent.futures import ThreadPoolExecutor

ROOT = os.path.dirname(os.path.dirname(os.path.abspath(__file__)))
COQ = os.path.join(ROOT, "coq")
HARNESS = os.path.join(ROOT, "harness")
BUILD = os.path.join(ROOT, "build")
REPO = "/repo"
GO = "go1.26.8"
NSHARDS = 16

GOENV = dict(os.environ, GOPROXY="off", GOSUMDB="off", GOTOOLCHAIN="local", GOFLAGS="")
GOENV.pop("GOFLAGS", None)

FORBIDDEN = re.compile(
    r"\b(Admitted|admit|Axiom|Axioms|Parameter|Parameters|Conjecture|Conjectures|Admit Obligations|"
    r"Unset Guard Checking|Unset Positivity Checking|Unset Universe Checking|bypass_check|"
    r"type-in-type|impredicative-set|native_compute)\b")
ALLOWED_AXIOMS = set()  # none expected; stdlib axioms would be named here and in DESIGN.md


def log(*a):
    print(*a, file=sys.stderr, flush=True)


class Lock:
    def __init__(self, name):
        os.makedirs(BUILD, exist_ok=True)
        self.path = os.path.join(BUILD, name + ".lock")

    def __enter__(self):
        self.f = open(self.path, "w")
        fcntl.flock(self.f, fcntl.LOCK_EX)

    def __exit__(self, *a):
        fcntl.flock(self.f, fcntl.LOCK_UN)
        self.f.close()


def sh(cmd, timeout, cwd=None, env=None, stdin=None):
    try:
        p = subprocess.run(cmd, cwd=cwd, env=env, timeout=timeout, stdout=subprocess.PIPE,
                           stderr=subprocess.STDOUT, input=stdin, text=True)
        return p.returncode, p.stdout
    except subprocess.TimeoutExpired as e:
        out = e.stdout or ""
        if isinstance(out, bytes):
            out = out.decode("utf-8", "replace")
        return 124, out + "\nTIMEOUT after %ss" % timeout


# ---------------------------------------------------------------- Coq side

def coq_sources():
    out = []
    for d, _, fs in os.walk(COQ):
        for f in fs:
            if f.endswith(".v"):
                out.append(os.path.join(d, f))
    return sorted(out)


def grep_gate():
    """No Admitted / Axiom / Parameter / guard switch anywhere in the development."""
    bad = []
    for p in coq_sources():
        txt = open(p).read()
        # strip comments (non-nested is enough for our sources; nested handled by loop)
        prev = None
        while prev != txt:
            prev = txt
            txt = re.sub(r"\(\*[^()]*?\*\)", " ", txt, flags=re.S)
        txt = re.sub(r"\(\*.*?\*\)", " ", txt, flags=re.S)
        for m in FORBIDDEN.finditer(txt):
            bad.append("%s: %s" % (os.path.relpath(p, ROOT), m.group(0)))
    return bad


def build_coq(targets=None):
    """Full .vo build (never -vos) of the development, incremental, under a time limit."""
    with Lock("coq"):
        mk = os.path.join(COQ, "Makefile")
        cp = os.path.join(COQ, "_CoqProject")
        if not os.path.exists(mk) or os.path.getmtime(mk) < os.path.getmtime(cp):
            rc, out = sh(["coq_makefile", "-f", "_CoqProject", "-o", "Makefile"], 120, cwd=COQ)
            if rc != 0:
                return False, out
        cmd = ["make", "-j16", "-k"] + (targets or [])
        rc, out = sh(["timeout", "3000"] + cmd, 3100, cwd=COQ)
        return rc == 0, out


def coqchk(prop):
    """Thorough tier: the compiled property file and everything it depends on, re-checked by Coq's independent checker;
    -o prints the axioms and the switched-off checks the whole closure relies on."""
    with Lock("coq"):
        rc, out = sh(["timeout", "2400", "coqchk", "-silent", "-o", "-Q", COQ, "EDS", "EDS.Properties.%s" % prop], 2500, cwd=COQ)
    tail = out[-1500:]
    clean = rc == 0 and "Axioms: <none>" in out and "type-in-type: <none>" in out.replace("Theory ", "").replace("Constants/Inductives relying on ", "")
    return {"ok": rc == 0, "closure_axiom_free": "Axioms: <none>" in out, "report": tail, "clean": clean}


def theorems_of(prop):
    p = os.path.join(COQ, "Properties", prop + ".v")
    if not os.path.exists(p):
        return []
    txt = open(p).read()
    return re.findall(r"^Theorem\s+([A-Za-z0-9_']+)", txt, flags=re.M)


def audit(prop, rundir):
    """Re-loads the compiled property file and prints the assumptions of every theorem."""
    thms = theorems_of(prop)
    vo = os.path.join(COQ, "Properties", prop + ".vo")
    res = {"theorems": thms, "closed": [], "open": [], "axioms": {}}
    if not thms and not os.path.exists(os.path.join(COQ, "Properties", prop + ".v")):
        return res
    if not os.path.exists(vo):
        res["open"] = list(thms)
        res["error"] = "Properties/%s.vo was not produced by the build" % prop
        return res
    src = "From EDS Require Import Properties.%s.\n" % prop
    for t in thms:
        src += 'Goal True. idtac "@@THM %s". exact I. Qed.\nPrint Assumptions %s.\n' % (t, t)
    f = os.path.join(rundir, "audit_%s.v" % prop)
    open(f, "w").write(src)
    rc, out = sh(["timeout", "600", "coqc", "-Q", COQ, "EDS", f], 700, cwd=rundir)
    if rc != 0:
        res["open"] = list(thms)
        res["error"] = out[-2000:]
        return res
    parts = re.split(r"@@THM (\S+)", out)
    for i in range(1, len(parts), 2):
        name, body = parts[i], parts[i + 1]
        if "Closed under the global context" in body:
            res["closed"].append(name)
        else:
            axs = re.findall(r"^([A-Za-z0-9_.']+)\s*:", body, flags=re.M)
            res["axioms"][name] = axs
            if axs and all(a in ALLOWED_AXIOMS for a in axs):
                res["closed"].append(name)
            else:
                res["open"].append(name)
    for t in thms:
        if t not in res["closed"] and t not in res["open"]:
            res["open"].append(t)
    return res


PAIR = re.compile(r"\(\s*(\d+)(?:%N)?\s*,\s*(\d+)(?:%N)?\s*\)")


def run_coq_shard(args):
    path, = args
    t0 = time.time()
    rc, out = sh(["timeout", "1500", "coqc", "-Q", COQ, "EDS", path], 1600, cwd=os.path.dirname(path))
    return path, rc, out, time.time() - t0


def eval_cases(prop, check_module, literals, rundir, tag="cases", imports=()):
    """literals: list of (case index, gallina literal).  Returns {index: [codes]} plus errors."""
    if not literals:
        return {}, []
    nsh = min(NSHARDS, max(1, len(literals) // 8))
    shards = [[] for _ in range(nsh)]
    for k, it in enumerate(literals):
        shards[k % nsh].append(it)
    paths = []
    for s, items in enumerate(shards):
        p = os.path.join(rundir, "%s_%s_%d.v" % (tag, prop, s))
        with open(p, "w") as f:
            f.write("From Coq Require Import String ZArith NArith List.\nImport ListNotations.\n")
            f.write("From EDS Require Import Model.Base %s %s.\n" % (" ".join(imports), check_module))
            f.write("Open Scope string_scope.\n")
            mod = check_module.split(".")[-1]
            f.write("Definition cases : list %s.case := [\n" % mod)
            f.write(";\n".join(lit for _, lit in items))
            f.write("\n].\nDefinition R := Eval vm_compute in %s.run cases.\nPrint R.\n" % mod)
        paths.append((p,))
    codes, errors = {}, []
    with ThreadPoolExecutor(max_workers=NSHARDS) as ex:
        for (path, rc, out, dt), items in zip(ex.map(run_coq_shard, paths), shards):
            if rc != 0:
                errors.append("%s: coqc failed: %s" % (os.path.basename(path), out[-1500:]))
                continue
            m = re.search(r"R\s*=\s*(.*?)\s*:\s*list", out, flags=re.S)
            if not m:
                errors.append("%s: cannot parse coqc output: %s" % (os.path.basename(path), out[-500:]))
                continue
            for a, b in PAIR.findall(m.group(1)):
                idx = items[int(a)][0]
                codes.setdefault(idx, []).append(int(b))
    return codes, errors


# ---------------------------------------------------------------- Go side

def build_go(tags, race=False):
    """Rebuilds the harness test binary from /repo's current working tree with the verif tag."""
    name = "h_" + "_".join(sorted(tags)) + ("_race" if race else "")
    out = os.path.join(BUILD, name + ".test")
    with Lock("go_" + name):
        ws = os.path.join(HARNESS, "go.work.sum")
        src = os.path.join(REPO, "go.work.sum")
        if os.path.exists(src):
            shutil.copyfile(src, ws)
        cmd = [GO, "test", "-c", "-tags", " ".join(["verif"] + sorted(tags))]
        if race:
            cmd.append("-race")
        cmd += ["-o", out, "."]
        rc, txt = sh(["timeout", "900"] + cmd, 1000, cwd=HARNESS, env=GOENV)
        if rc != 0 and os.path.exists(out):
            os.remove(out)
        return (out if rc == 0 else None), txt


def run_go(binary, cases, rundir, tag="cases", timeout=900, extra_env=None):
    cin = os.path.join(rundir, tag + ".jsonl")
    cout = os.path.join(rundir, tag + ".out.jsonl")
    with open(cin, "w") as f:
        for c in cases:
            f.write(json.dumps(c, separators=(",", ":")) + "\n")
    env = dict(GOENV, VERIF_CASES=cin, VERIF_OUT=cout)
    if extra_env:
        env.update(extra_env)
    rc, txt = sh(["timeout", str(timeout), binary, "-test.run", "^TestCases$", "-test.timeout", "0"],
                 timeout + 30, cwd=rundir, env=env)
    results = {}
    if os.path.exists(cout):
        for line in open(cout):
            line = line.strip()
            if line:
                try:
                    r = json.loads(line)
                    results[r["id"]] = r
                except Exception:
                    pass
    return rc, txt, results


# ---------------------------------------------------------------- Gallina literals

def gZ(n):
    return "(%d)%%Z" % int(n)


def gN(n):
    assert int(n) >= 0
    return "%d%%N" % int(n)


def gnat(n):
    assert 0 <= int(n) < 5000
    return "%d%%nat" % int(n)


def gB(b):
    return "true" if b else "false"


def gS(s):
    assert all(32 <= ord(ch) < 127 for ch in s), repr(s)
    return '"%s"%%string' % s.replace('"', '""')


def gL(items):
    return "[" + "; ".join(items) + "]"


def gO(x, f=lambda v: v):
    return "None" if x is None else "(Some %s)" % f(x)


def gP(*xs):
    return "(" + ", ".join(xs) + ")"


def gC(ctor, *args):
    return "(" + " ".join([ctor] + list(args)) + ")" if args else ctor


def printable_ascii(s):
    return all(32 <= ord(ch) < 127 for ch in s)


class Interner:
    """Order-preserving interning of opaque names per case: rank among the distinct names; "" = 0."""

    def __init__(self, names):
        ns = sorted(set(n for n in names if n != ""))
        self.map = {n: i + 1 for i, n in enumerate(ns)}
        self.map[""] = 0

    def __call__(self, s):
        if s is None:
            s = ""
        return gN(self.map[s])

    def raw(self, s):
        return self.map[s if s is not None else ""]


class Table:
    """Interning with fixed numbers for well-known strings; others numbered from `base` on."""

    def __init__(self, fixed, base=1000):
        self.fixed = dict(fixed)
        self.base = base
        self.extra = {}

    def __call__(self, s):
        if s is None:
            s = ""
        if s in self.fixed:
            return gN(self.fixed[s])
        if s not in self.extra:
            self.extra[s] = self.base + len(self.extra)
        return gN(self.extra[s])


# ---------------------------------------------------------------- known findings

def load_known(prop):
    p = os.path.join(ROOT, "known_findings.json")
    if not os.path.exists(p):
        return []
    data = json.load(open(p))
    return [e for e in data.get("findings", []) if e.get("property") == prop]


# ---------------------------------------------------------------- the check driver

def load_corpus(plugin):
    """committed cases that run first: corpus/<ID>/*.json plus the directories the plug-in names"""
    out = []
    for d in [plugin.ID] + list(getattr(plugin, "CORPUS", [])):
        dd = os.path.join(ROOT, "corpus", d)
        if os.path.isdir(dd):
            for f in sorted(os.listdir(dd)):
                if f.endswith(".json"):
                    try:
                        c = json.load(open(os.path.join(dd, f)))
                        c.pop("id", None)
                        out.append(c)
                    except Exception as e:
                        log("corpus file %s unreadable: %r" % (f, e))
    return out


def canon_hash(obj):
    return hashlib.sha1(json.dumps(obj, sort_keys=True, separators=(",", ":")).encode()).hexdigest()


def write_replay(prop, payload):
    os.makedirs(os.path.join(ROOT, "replays"), exist_ok=True)
    h = canon_hash(payload)[:12]
    p = os.path.join(ROOT, "replays", "%s-%s.json" % (prop, h))
    with open(p, "w") as f:
        json.dump(payload, f, indent=1, sort_keys=True)
    return p


TRUSTED_BASE = [
    "Coq 8.16.1 kernel and its vm_compute bytecode VM (no native_compute, no extraction)",
    "no axioms: every property theorem is 'Closed under the global context' (Print Assumptions, re-run on every check)",
    "hand-written Gallina model of the Go code (coq/Model), tied to /repo by the correspondence cases of this run",
    "Go harness (harness/*.go), its projection of API objects, controller-runtime fake client, testing/synctest virtual clock, go1.26.8",
    "Python driver: generators, order-preserving interning of names, Gallina literal printer (tools/*.py)",
]


def run_check(plugin, tier, seed, replay=None):
    t0 = time.time()
    prop = plugin.ID
    rundir = os.path.join(BUILD, "run", prop + ("" if tier == "quick" else "-" + tier))
    shutil.rmtree(rundir, ignore_errors=True)
    os.makedirs(rundir, exist_ok=True)
    os.makedirs(os.path.join(ROOT, "evidence"), exist_ok=True)
    violations = []   # (kind, message, replay payload)
    known_lines = []
    notes = []

    # 1. proof obligations
    gate = grep_gate()
    ok_coq, coq_log = build_coq()
    aud = audit(prop, rundir)
    obligations = len(aud["theorems"])
    discharged = len(aud["closed"])
    proof_broken = []
    if gate:
        proof_broken.append("forbidden vernacular: " + "; ".join(gate))
    if not ok_coq:
        notes.append("coq build reported errors: " + coq_log[-1500:])
    if aud["open"] or "error" in aud:
        proof_broken.append("theorems not closed: %s %s" % (aud["open"], aud.get("error", "")[-800:]))

    chk_report = None
    if tier == "thorough" and not replay and not aud["open"] and "error" not in aud:
        chk_report = coqchk(prop)
        if not chk_report["ok"] or not chk_report["closure_axiom_free"]:
            proof_broken.append("coqchk does not accept Properties/%s.vo axiom-free: %s" % (prop, chk_report["report"][-600:]))

    # 2. implementation side
    binary, golog = build_go(plugin.TAGS, race=getattr(plugin, "RACE", False))
    rng = random.Random(seed)
    cases = []
    stats = {}
    corr_broken = []
    monitor_fail = []
    evals = 0
    steps_total = 0
    nontrivial = set()
    samples = []
    results = {}
    if replay:
        payload = json.load(open(replay))
        cases = [payload["case"]] if "case" in payload else []
        for i, c in enumerate(cases):
            c["id"] = i
    else:
        cases = load_corpus(plugin) + plugin.generate(rng, tier, stats)
        for i, c in enumerate(cases):
            c["id"] = i
    if binary is None:
        corr_broken.append({"what": "harness does not build against /repo's working tree",
                            "detail": golog[-3000:]})
    else:
        reps = getattr(plugin, "GO_REPS", 1)
        rc, txt, results = run_go(binary, cases, rundir, timeout=getattr(plugin, "GO_TIMEOUT", 900))
        if rc != 0:
            notes.append("harness exit %s: %s" % (rc, txt[-1500:]))
        if hasattr(plugin, "judge_run"):
            # observations on the run as a whole (e.g. race-detector reports in the harness output)
            monitor_fail += plugin.judge_run(rc, txt, cases, results, stats)
        lits = []
        for c in cases:
            r = results.get(c["id"])
            if r is None:
                corr_broken.append({"what": "no result from the harness", "case": c})
                continue
            if r.get("harness_error"):
                corr_broken.append({"what": "harness error: " + r["harness_error"], "case": c})
                continue
            evals += 1
            try:
                lit = plugin.encode(c, r)
            except Exception as e:  # encoder cannot express what the implementation did
                corr_broken.append({"what": "encoder: %r" % (e,), "case": c, "result": r})
                continue
            if lit is None:
                # an outcome the plug-in classifies itself (e.g. an unexpected panic)
                v = plugin.classify_unencodable(c, r)
                if v:
                    monitor_fail.append({"codes": [v[0]], "what": v[1], "case": c, "result": r})
                continue
            if isinstance(lit, list):
                for k, l in enumerate(lit):
                    lits.append((c["id"] * 1000 + k, l))
                steps_total += len(lit)
            else:
                lits.append((c["id"] * 1000, lit))
                steps_total += 1
            if plugin.nontrivial(c, r):
                nontrivial.add(canon_hash({k: v for k, v in c.items() if k != "id"}))
            if len(samples) < 3 and plugin.nontrivial(c, r):
                samples.append(plugin.sample(c, r) if hasattr(plugin, "sample") else
                               {"case": {k: v for k, v in c.items() if k != "id"}, "observed": r.get("out", r.get("panic"))})
        codes, errs = eval_cases(prop, plugin.CHECK_MODULE, lits, rundir, imports=getattr(plugin, "IMPORTS", ()))
        for e in errs:
            corr_broken.append({"what": "case evaluation failed", "detail": e})
        byid = {c["id"]: c for c in cases}
        for idx, cs in sorted(codes.items()):
            c, r = byid[idx // 1000], results[idx // 1000]
            stepno = idx % 1000
            mons = [x for x in cs if 10 <= x < 100]
            known = [x for x in cs if x >= 100]
            if mons:
                monitor_fail.append({"codes": mons, "step": stepno, "what": "; ".join(plugin.CODES.get(x, "monitor %d" % x) for x in mons), "case": c, "result": r})
            if 1 in cs:
                corr_broken.append({"what": "model does not predict the implementation (step_ok false)", "step": stepno, "case": c, "result": r})
            for x in known:
                # a failing monitor inside a region is a known finding only if known_findings.json lists it;
                # anything else is a violation
                listed = [f for f in load_known(prop) if int(f.get("code", -1)) == x]
                if listed:
                    known_lines.append("KNOWN-FINDING: property=%s %s" % (prop, listed[0].get("what", plugin.CODES.get(x, "finding %d" % x))))
                else:
                    monitor_fail.append({"codes": [x], "step": stepno, "what": plugin.CODES.get(x, "monitor %d" % x) + " (region code not listed in known_findings.json)", "case": c, "result": r})

    # 3. verdict
    exit_code = 0
    out_lines = []
    for kl in sorted(set(known_lines)):
        out_lines.append(kl)
    if monitor_fail:
        mf = monitor_fail[0]
        if hasattr(plugin, "shrink") and binary is not None and not replay:
            try:
                mf = plugin.shrink(mf, lambda cs: _rerun(plugin, binary, cs, rundir)) or mf
            except Exception as e:
                notes.append("shrink failed: %r" % (e,))
        path = write_replay(prop, {"property": prop, "kind": "monitor", "what": mf["what"], "codes": mf["codes"],
                                   "case": mf["case"], "observed": mf["result"], "seed": seed, "tier": tier})
        out_lines.append("VIOLATION property=%s replay=%s" % (prop, path))
        exit_code = 1
    elif corr_broken or proof_broken:
        found = None
        if corr_broken and binary is not None and not replay and hasattr(plugin, "generate"):
            found = _extended_search(plugin, binary, seed, tier, rundir, notes)
        if found:
            path = write_replay(prop, {"property": prop, "kind": "monitor", "what": found["what"], "codes": found["codes"],
                                       "case": found["case"], "observed": found["result"], "seed": seed, "tier": tier,
                                       "found_by": "extended search after a correspondence mismatch"})
            out_lines.append("VIOLATION property=%s replay=%s" % (prop, path))
        else:
            first = corr_broken[0] if corr_broken else None
            path = write_replay(prop, {"property": prop, "kind": "no-failing-input-found",
                                       "broken_theorems": proof_broken,
                                       "broken_correspondence": "%s.chk / step_ok (%d mismatching cases)" % (plugin.CHECK_MODULE, len(corr_broken)) if corr_broken else None,
                                       "first_mismatch": first, "case": (first or {}).get("case"),
                                       "search": "re-ran the generator with %d further seeds and all monitors: no monitor failed" % SEARCH_ROUNDS,
                                       "seed": seed, "tier": tier})
            out_lines.append("VIOLATION property=%s replay=%s no-failing-input-found" % (prop, path))
        exit_code = 1

    wall = time.time() - t0
    ev = {
        "property_id": prop, "tier": tier, "seed": seed, "level": "proof",
        "coverage": {
            "obligations": obligations, "discharged": discharged,
            "checker_cmd": "make -C /verif/coq (coqc 8.16.1, full .vo build) + Print Assumptions on every theorem of Properties/%s.v" % prop,
            "trusted_base": TRUSTED_BASE + getattr(plugin, "TRUSTED_EXTRA", []),
            "theorems": aud["theorems"], "theorems_closed": aud["closed"], "theorems_open": aud["open"],
            "open_statements": getattr(plugin, "OPEN_STATEMENTS", []),
            "evaluations": evals, "steps_checked": steps_total, "distinct_nontrivial": len(nontrivial),
            "traces_validated_against_impl": evals - len(corr_broken),
            "rule": plugin.RULE, "samples": samples, "input_distribution": stats,
            "exhaustive": bool(getattr(plugin, "EXHAUSTIVE", {}).get(tier, False)),
            "correspondence_mismatches": len(corr_broken), "monitor_failures": len(monitor_fail),
            "known_findings_hit": sorted(set(known_lines)),
        },
        "assumptions": plugin.ASSUMPTIONS,
        "wall_s": round(wall, 2), "violations": 1 if exit_code else 0,
    }
    if chk_report is not None:
        ev["coverage"]["coqchk"] = {"cmd": "coqchk -silent -o -Q /verif/coq EDS EDS.Properties.%s" % prop, "accepted": chk_report["ok"],
                                    "axioms_of_the_closure": "<none>" if chk_report["closure_axiom_free"] else "see report",
                                    "report": chk_report["report"]}
    if notes:
        ev["coverage"]["notes"] = notes[:5]
    with open(os.path.join(ROOT, "evidence", prop + ".json"), "w") as f:
        json.dump(ev, f, indent=1)
    for l in out_lines:
        print(l)
    print("%s %s tier=%s seed=%d theorems=%d/%d cases=%d nontrivial=%d mismatches=%d monitor_failures=%d wall=%.1fs" % (
        prop, "FAIL" if exit_code else "ok", tier, seed, discharged, obligations, evals, len(nontrivial),
        len(corr_broken), len(monitor_fail), wall))
    if replay:
        for c in cases:
            print("case:", json.dumps(c)[:3000])
            print("observed:", json.dumps(results.get(c["id"]))[:3000])
    return exit_code


SEARCH_ROUNDS = 4


def _rerun(plugin, binary, cases, rundir):
    """Runs cases through Go + Coq, returns list of monitor codes per case."""
    for i, c in enumerate(cases):
        c["id"] = i
    rc, txt, results = run_go(binary, cases, rundir, tag="rerun")
    lits, out = [], {}
    for c in cases:
        r = results.get(c["id"])
        if r is None or r.get("harness_error"):
            continue
        lit = plugin.encode(c, r)
        if lit is None:
            v = plugin.classify_unencodable(c, r)
            if v:
                out[c["id"]] = ([v[0]], r)
            continue
        if isinstance(lit, list):
            for k, l in enumerate(lit):
                lits.append((c["id"] * 1000 + k, l))
        else:
            lits.append((c["id"] * 1000, lit))
    codes, errs = eval_cases(plugin.ID, plugin.CHECK_MODULE, lits, rundir, tag="rerun", imports=getattr(plugin, "IMPORTS", ()))
    for idx, cs in codes.items():
        mons = [x for x in cs if 10 <= x < 100]
        if mons:
            out[idx // 1000] = (mons, results[idx // 1000])
    return out


def _extended_search(plugin, binary, seed, tier, rundir, notes):
    for k in range(1, SEARCH_ROUNDS + 1):
        rng = random.Random(seed * 1000003 + k)
        cases = plugin.generate(rng, tier, {})
        res = _rerun(plugin, binary, cases, rundir)
        if res:
            idx = sorted(res)[0]
            mons, r = res[idx]
            c = [c for c in cases if c["id"] == idx][0]
            return {"codes": mons, "what": "; ".join(plugin.CODES.get(x, "monitor %d" % x) for x in mons), "case": c, "result": r}
    notes.append("extended search: %d further rounds, no monitor failed" % SEARCH_ROUNDS)
    return None
