"""C18 - at most one valid ExtendedDaemonsetSetting applies to a node."""
import itertools

import k8s as K
import project as P
import worldenc
import worldgen
import wprop
from fw import gB, gL, gN, gO, gC
from wprop import classify_unencodable, sample  # noqa: F401

ID = "C18"
TAGS = ["h_world"]
CHECK_MODULE = "Check.C18Check"
IMPORTS = ["Model.Objects", "Model.PodSpec", "Model.Backoff", "Model.ErsReconcile", "Model.EdsReconcile", "Model.Setting", "Check.World"]
RULE = ("populations of 0-4 ExtendedDaemonsetSettings of one namespace (plus sometimes one elsewhere): creation times equal or "
        "different, selectors by labels, by expressions (In/NotIn/Exists/DoesNotExist), empty, or unusable (In without values, "
        "unknown operator), with / without / with an empty reference; 0-4 labelled nodes; the real setting Reconcile is run on "
        "every setting in a drawn order (quick) or in ALL orders up to 24 (thorough), twice, then the final statuses are judged "
        "(mutual exclusion, well-formed-and-alone is valid); plus replica-set syncs on stores with settings (which setting is "
        "attached to created pods). Non-trivial = two settings overlap on a node, or a setting is malformed.")
ASSUMPTIONS = [
    "settings are compared within one namespace (the controller lists by namespace)",
    "the conflict is reported on the older setting (creation time, then name); names unique per namespace",
]
CODES = {
    1: "model does not predict the reconcile",
    10: "two settings of one namespace that overlap on a node are both valid",
    11: "a setting without a reference is not in error",
    14: "a setting that was not valid became valid in a reconcile that could not read the lists, or although the rule makes it an error",
    12: "a setting with an unusable selector is not in error",
    13: "a well-formed setting that overlaps no other is not valid",
    15: "a created pod carries a setting that is not a valid setting selecting its node",
    20: "harness panic",
}
GO_TIMEOUT = 1500
NS = "ns1"

SELECTORS = [{"matchLabels": {"zone": "a"}}, {"matchLabels": {"zone": "b"}}, {"matchLabels": {"big": "yes"}}, {"matchLabels": {"role": "w"}},
             {"matchExpressions": [{"key": "zone", "operator": "In", "values": ["a", "b"]}]},
             {"matchExpressions": [{"key": "big", "operator": "Exists"}]},
             {"matchExpressions": [{"key": "zone", "operator": "NotIn", "values": ["a"]}]},
             {"matchExpressions": [{"key": "big", "operator": "DoesNotExist"}]},
             {}, {"matchExpressions": [{"key": "zone", "operator": "In", "values": []}]},
             {"matchExpressions": [{"key": "zone", "operator": "Weird", "values": ["a"]}]},
             # not legal label values / keys: the conversion of the selector fails, under matchLabels as under expressions
             {"matchLabels": {"zone": "us east"}}, {"matchLabels": {"zone": "a", "team": "-x"}}, {"matchLabels": {"bad key": "a"}},
             {"matchExpressions": [{"key": "zone", "operator": "In", "values": ["a", "b!"]}]},
             {"matchExpressions": [{"key": "zone/", "operator": "Exists"}]}]


def gen_case(rng, tier, stats):
    nn = rng.choice([0, 1, 2, 3, 4])
    objs = []
    for i in range(nn):
        labels = {"zone": rng.choice(["a", "b"]), "role": rng.choice(["w", "x"])}
        if rng.random() < 0.4:
            labels["big"] = "yes"
        objs.append(K.node("n%d" % i, labels=labels))
    ns_ = rng.choice([0, 1, 2, 2, 3, 4])
    names = []
    for j in range(ns_):
        nm = "set%d" % j
        names.append(nm)
        objs.append(K.setting(NS, nm, rng.choice(["foo", "foo", "foo", "bar", None, ""]), rng.choice(SELECTORS),
                              [("main", {"limits": {"cpu": "1"}})], status=rng.choice(["", "valid", "error"]),
                              created=rng.choice([-1000, -1000, -900, -800]), error=rng.choice(["", "", "stale"])))
    if rng.random() < 0.2:
        objs.append(K.setting("ns2", "set0", "foo", rng.choice(SELECTORS), [("main", {"limits": {"cpu": "1"}})], created=-1000))
    orders = list(itertools.permutations(names))
    if tier == "quick" or len(orders) > 24:
        orders = [rng.choice(orders)] if orders else [()]
    cases = []
    for order in orders:
        ops = []
        if rng.random() < 0.3:
            # a first pass during which the API server fails a List of the settings or of the nodes
            for nm in order:
                kind = rng.choice(["ExtendedDaemonsetSetting", "ExtendedDaemonsetSetting", "Node"])
                ops.append(K.reconcile("setting", NS, nm, {"list_fail": [kind]}))
                wprop.bump(stats, "reconcile with a failing List", kind)
        for _ in range(2):
            for nm in order:
                ops.append(K.reconcile("setting", NS, nm))
        if rng.random() < 0.2:
            ops.append(K.reconcile("setting", NS, "set-gone"))
        cases.append({"kind": "world", "objects": objs, "ops": ops, "options": {"affinity": False, "default_mode": "auto"}, "final_check": True})
    wprop.bump(stats, "settings", ns_)
    wprop.bump(stats, "nodes", nn)
    return cases


def generate(rng, tier, stats):
    out = []
    for _ in range(260 if tier == "quick" else 1500):
        out += gen_case(rng, tier, stats)
    for i in range(80 if tier == "quick" else 1200):
        c = worldgen.gen_ers_world(rng, stats, {"open_gates": True, "rich_resources": True, "classes": ["none", "none", "uptodate_ready", "old_ready"],
                                                "no_faults": i % 2 == 0})
        if i % 2 == 0:
            # a setting that is NOT valid (not reconciled yet, or in error) and selects the nodes pods are created on: it shapes nothing
            sets = [o for o in c["objects"] if o["kind"] == "ExtendedDaemonsetSetting"]
            if not sets:
                sets = [K.setting(worldgen.NS, "set0", worldgen.EDS, {}, [("main", {"limits": {"cpu": "3"}, "requests": {"memory": "256Mi"}})], created=-1000)]
                c["objects"] += sets
            for o in sets:
                o["spec"]["reference"] = {"name": worldgen.EDS, "kind": "ExtendedDaemonset"}
                o["spec"]["nodeSelector"] = rng.choice([{}, {"matchLabels": {"role": "w"}}, {"matchExpressions": [{"key": "role", "operator": "Exists"}]}])
                o.setdefault("status", {})["status"] = rng.choice(["", "", "error"])
            wprop.bump(stats, "only settings that are not valid select the nodes", "yes")
        out.append(c)
    return out


def encode(c, r):
    if r.get("panic"):
        return None
    lits = []
    for st in (r["out"].get("steps") or []):
        op = st["op"]
        if op.get("op") == "reconcile" and op.get("ctrl") == "setting" and not st.get("stopped") and st.get("pre") is not None:
            inst = worldenc.find(st["pre"], "ExtendedDaemonsetSetting", op["ns"], op["name"])
            post = worldenc.find(st["post"] or [], "ExtendedDaemonsetSetting", op["ns"], op["name"])
            alls = [P.g_setting(s) for s in worldenc.by_kind(st["pre"], "ExtendedDaemonsetSetting")]
            nodes = [P.g_node(n, "", "", []) for n in worldenc.by_kind(st["pre"], "Node")]
            pst = (post or {}).get("status") or {}
            lf = (op.get("faults") or {}).get("list_fail") or []
            lit = gC("St", gO(inst, P.g_setting), gL(alls), gL(nodes), gB("ExtendedDaemonsetSetting" in lf), gB("Node" in lf),
                     gN(P.SET_STATUS.get(pst.get("status", ""), 99)),
                     gB(bool(pst.get("error"))), gB(bool(st.get("err"))), gB(bool(st.get("panic"))))
            lits.append(P.finish(lit)[0])
            continue
        l = worldenc.encode_step(st, c["options"])
        if l is not None:
            lits.append("(W %s)" % l)
    if c.get("final_check"):
        fin = r["out"].get("final") or []
        lit = gC("Fin", gL([P.g_setting(s) for s in worldenc.by_kind(fin, "ExtendedDaemonsetSetting")]),
                 gL([P.g_node(n, "", "", []) for n in worldenc.by_kind(fin, "Node")]))
        lits.append(P.finish(lit)[0])
    return lits


def nontrivial(c, r):
    sets = [o for o in c["objects"] if o["kind"] == "ExtendedDaemonsetSetting"]
    return len(sets) >= 2 or any(not (s["spec"].get("reference") or {}).get("name") for s in sets)
