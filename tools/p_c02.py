"""C02 - reconciliation converges to one Ready live-template pod per eligible node."""
import histgen
import k8s as K
import project as P
import worldenc
import wprop
from fw import gB, gL, gZ, gC
from wprop import classify_unencodable, sample  # noqa: F401

ID = "C02"
TAGS = ["h_world"]
CHECK_MODULE = "Check.C02Check"
IMPORTS = ["Model.Objects", "Model.PodSpec", "Model.Backoff", "Model.ErsReconcile", "Model.EdsReconcile", "Check.World"]
RULE = ("histories on a small cluster (2-6 nodes) driven by the real controllers: first rollout, then 8-30 operations mixing template "
        "changes (three templates, several in a row), annotation toggles and kubectl-eds commands, node addition / removal / tainting, "
        "pod restarts, partial kubelet progress, controller restarts and clock ticks, for every rolling-update / canary configuration "
        "of the lattice {maxUnavailable 1,2,50%,100%} x {increase 1,2,5,100%} x {maxParallel 1,2,250} x {interval 1,30,60 s} x "
        "{no canary, auto, manual}; then pause/freeze switches are cleared and FAIR ROUNDS run (kubelet settles, 61 s pass, the "
        "ExtendedDaemonSet reconciles, every replica set syncs, in rotating order) up to the bound; the final store is judged and the "
        "last two rounds must be silent. Every reconcile step of the prefix and of the first and last rounds is also a "
        "correspondence case. Non-trivial = the history created or deleted pods after the first rollout.")
ASSUMPTIONS = [
    "API calls succeed and created pods get scheduled and become Ready (the kubelet op of the harness); rounds are fair",
    "maxUnavailable >= 1 after resolution, slowStartAdditiveIncrease >= 1, maxParallelPodCreation >= 1, interval > 0 "
    "(each is necessary: C02_*_needed)",
    "the liveness theorems are on the per-class abstraction (Model/Abstract.v) which shares calc_create / calc_delete with the sync "
    "model; the projection from sync plans to abstract rounds is not proved (stretch) - the histories are its test",
]
OPEN_STATEMENTS = ["C02_projection: for snapshots with at most one counted pod per node the plan of the active role projects to the abstract round - not proved"]
CODES = {
    1: "model does not predict the reconcile",
    10: "at rest an eligible node does not run exactly one Ready pod built from the live template",
    11: "at rest a daemon pod remains on a node that is not eligible",
    12: "the last two fair rounds still created or deleted pods or replica sets",
    13: "at rest the status counters do not equal the eligible nodes / the daemon pods",
    14: "at rest the active replica set is not the live template's",
    15: "more fair rounds were needed than the bound",
    20: "harness panic",
}
GO_TIMEOUT = 2400
NS, EDS = histgen.NS, histgen.EDS


def tail_rounds(n_nodes):
    return 3 * (n_nodes + 2) + 8


def generate(rng, tier, stats):
    out = []
    for _ in range(36 if tier == "quick" else 600):
        n = rng.choice([2, 3, 4, 5, 6])
        c = histgen.gen_history(rng, stats, n=n, length=rng.choice([8, 14, 22, 30]), allow_cmds=True)
        e = [o for o in c["objects"] if o["kind"] == "ExtendedDaemonSet"][0]
        can = e["spec"]["strategy"].get("canary")
        if can is not None:
            if can.get("validationMode") == "auto":
                can["duration"] = K.dur(rng.choice([30, 60]))
            can["autoFail"] = {"enabled": True, "maxRestarts": 5}
        # resume everything, then fair rounds
        ops = c["ops"]
        ops += [histgen.edit("ExtendedDaemonSet", NS, EDS, "unannotate:" + P.A_RU_PAUSED),
                histgen.edit("ExtendedDaemonSet", NS, EDS, "unannotate:" + P.A_FROZEN),
                histgen.edit("ExtendedDaemonSet", NS, EDS, "annotate:%s=false" % P.A_PAUSED),
                histgen.edit("ExtendedDaemonSet", NS, EDS, "annotate:%s=true" % P.A_UNPAUSED)]
        rounds = tail_rounds(n + 2)
        c["tail_start"] = len(ops)
        c["tail_rounds"] = rounds
        for k in range(rounds):
            rnd = histgen.fair_round(rng, sleep=61)
            if 3 <= k < rounds - 2:
                for o in rnd:
                    o["nodump"] = True      # judged at the end; not every round is a correspondence case
            ops += rnd
        c["n_nodes"] = n + 2
        out.append(c)
    return out


def encode(c, r):
    if r.get("panic"):
        return None
    lits = []
    steps = r["out"].get("steps") or []
    for st in steps:
        l = worldenc.encode_step(st, c["options"])
        if l is not None:
            lits.append("(W %s)" % l)
    # rounds of the tail: a round is silent when its reconciles issued no pod / replica-set creation or deletion
    fin = r["out"].get("final") or []
    e = worldenc.find(fin, "ExtendedDaemonSet", NS, EDS)
    if e is None:
        return lits
    # split the tail steps into rounds at the kubelet ops
    tail, seen_ops = [], 0
    idx = 0
    # steps are expanded (wildcards): find the first step of the tail by counting kubelet ops from the end
    rounds = []
    cur = None
    n_kub = 0
    for st in reversed(steps):
        if cur is None:
            cur = []
        cur.append(st)
        if st["op"].get("op") == "kubelet" and st["op"].get("cmd") == "all":
            rounds.append(list(reversed(cur)))
            cur = None
            n_kub += 1
            if n_kub == c["tail_rounds"]:
                break
    rounds.reverse()

    def noisy(rnd):
        for st in rnd:
            for cl in st.get("calls") or []:
                if cl["kind"] in ("Pod", "ExtendedDaemonSetReplicaSet") and cl["verb"] in ("create", "delete"):
                    return True
        return False
    silent = len(rounds) >= 2 and not noisy(rounds[-1]) and not noisy(rounds[-2])
    used = len(rounds)
    for k in range(len(rounds)):
        if all(not noisy(x) for x in rounds[k:]):
            used = k
            break
    bound = c["tail_rounds"] - 2
    lit = gC("Final", P.g_eds(e), gL([P.g_ers(x) for x in worldenc.by_kind(fin, "ExtendedDaemonSetReplicaSet")]),
             gL([P.g_node(x, NS, EDS, ["main"]) for x in worldenc.by_kind(fin, "Node")]),
             gL([P.g_pod(x) for x in worldenc.by_kind(fin, "Pod")]), gB(silent), gZ(used), gZ(bound))
    lits.append(P.finish(lit)[0])
    return lits


def nontrivial(c, r):
    n = 0
    for st in ((r.get("out") or {}).get("steps") or []):
        n += len([cl for cl in st.get("calls") or [] if cl["kind"] == "Pod" and cl["verb"] in ("create", "delete")])
    return n > c.get("n_nodes", 0)
