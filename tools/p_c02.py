"""C02 - reconciliation converges to one Ready live-template pod per eligible node."""
import histgen
import k8s as K
import project as P
import worldenc
import wprop
from fw import gB, gL, gZ, gC
from wprop import classify_unencodable, sample  # noqa: F401

ID = "C02"
TAGS = ["h_world"]
CHECK_MODULE = "Check.C02Check"
IMPORTS = ["Model.Objects", "Model.PodSpec", "Model.Backoff", "Model.ErsReconcile", "Model.EdsReconcile", "Check.World"]
RULE = ("histories on a small cluster (2-6 nodes) driven by the real controllers: first rollout, then 8-30 operations mixing template "
        "changes (three templates, several in a row), annotation toggles and kubectl-eds commands, node addition / removal / tainting, "
        "pod restarts, partial kubelet progress, controller restarts and clock ticks, for every rolling-update / canary configuration "
        "of the lattice {maxUnavailable 1,2,50%,100%} x {increase 1,2,5,100%} x {maxParallel 1,2,250} x {interval 1,30,60 s} x "
        "{no canary, auto, manual}; then pause/freeze switches are cleared and FAIR ROUNDS run (kubelet settles, 61 s pass, the "
        "ExtendedDaemonSet reconciles, every replica set syncs, in rotating order) up to the bound; the final store is judged and the "
        "last two rounds must be silent. Every reconcile step of the prefix and of the first and last rounds is also a "
        "correspondence case. Non-trivial = the history created or deleted pods after the first rollout.")
ASSUMPTIONS = [
    "API calls succeed and created pods get scheduled and become Ready (the kubelet op of the harness); rounds are fair",
    "maxUnavailable >= 1 after resolution, slowStartAdditiveIncrease >= 1, maxParallelPodCreation >= 1, interval > 0 "
    "(each is necessary: C02_*_needed)",
    "the liveness theorems are on the per-class abstraction (Model/Abstract.v) which shares calc_create / calc_delete with the sync "
    "model; C02_plan_projects proves that the real plan's budgets are the abstract sync's on the class counts of its items; "
    "the environment's half of a round is exercised by the histories",
]
OPEN_STATEMENTS = ["the environment's half of a fair round (created pods become planning items holding a Ready pod, deleted pods disappear, "
                   "terminating ones are finalised) is a statement about the API server and the kubelet: exercised by the histories, not "
                   "proved; the controller's half is: C02_plan_projects (budgets) and C02_sync_projects (the items after any admissible choice "
                   "of the sync abstract to a_sync of the items before)"]
CODES = {
    1: "model does not predict the reconcile",
    10: "at rest an eligible node does not run exactly one Ready pod built from the live template",
    11: "at rest a daemon pod remains on a node that is not eligible",
    12: "the last two fair rounds still created or deleted pods or replica sets",
    14: "at rest the active replica set is not the live template's",
    15: "more fair rounds were needed than the bound",
    20: "harness panic",
}
GO_TIMEOUT = 2400
NS, EDS = histgen.NS, histgen.EDS


def tail_rounds(n_nodes):
    return 3 * (n_nodes + 2) + 8


def generate(rng, tier, stats):
    return gen_cases(rng, stats, 36 if tier == "quick" else 600)


def gen_cases(rng, stats, count):
    out = []
    for _ in range(count):
        n = rng.choice([2, 3, 4, 5, 6])
        c = histgen.gen_history(rng, stats, n=n, length=rng.choice([8, 14, 22, 30]), allow_cmds=True)
        e = [o for o in c["objects"] if o["kind"] == "ExtendedDaemonSet"][0]
        can = e["spec"]["strategy"].get("canary")
        if can is not None:
            if can.get("validationMode") == "auto":
                can["duration"] = K.dur(rng.choice([30, 60]))
            can["autoFail"] = {"enabled": True, "maxRestarts": 5}
        # resume everything, then fair rounds
        ops = c["ops"]
        if rng.random() < 0.35:
            # a dedicated node that is also cordoned / not ready: two taints, the untolerated one first or last
            std = {"key": rng.choice(["node.kubernetes.io/unschedulable", "node.kubernetes.io/not-ready"]), "effect": "NoSchedule"}
            ded = {"key": "dedicated", "value": "gpu", "effect": rng.choice(["NoSchedule", "NoExecute"])}
            nodes = [o for o in c["objects"] if o["kind"] == "Node"]
            for o in rng.sample(nodes, rng.choice([1, 1, 2]) if len(nodes) > 2 else 1):
                o.setdefault("spec", {})["taints"] = rng.choice([[ded, std], [std, ded], [ded, std], [std, std]])
            wprop.bump(stats, "nodes with two taints", "yes")
        if rng.random() < 0.35:
            # a template change made WHILE the rollout is frozen or paused: the replica set is born under the annotation
            key = rng.choice([P.A_FROZEN, P.A_RU_PAUSED])
            ops += [histgen.edit("ExtendedDaemonSet", NS, EDS, "annotate:%s=true" % key),
                    histgen.edit("ExtendedDaemonSet", NS, EDS, "image:img:%d" % rng.choice([4, 5])),
                    histgen.rec_eds(), K.sleep(2), histgen.rec_eds(), histgen.rec_all_ers(rng)]
            wprop.bump(stats, "template changed while frozen/paused", key.rsplit("/", 1)[-1])
        if (can is None or can.get("validationMode") == "auto") and rng.random() < 0.4:
            # several pods of the running template start crash-looping (and stay so); then the template is changed: the
            # unready old pods are replaced ahead of the available ones, whatever their number
            stride = rng.choice([1, 1, 2])
            e["spec"]["strategy"]["rollingUpdate"]["maxUnavailable"] = rng.choice([1, 1, 2])   # the default is 1
            ops += histgen.fair_round(rng, sleep=61)
            ops += [histgen.kubelet("crashloop", stride), histgen.rec_all_ers(rng),
                    histgen.edit("ExtendedDaemonSet", NS, EDS, "image:img:%d" % rng.choice([6, 7])), histgen.rec_eds()]
            wprop.bump(stats, "old pods crash-looping when the template changes", "every %d" % stride)
        if rng.random() < 0.25:
            # a manifest re-applied with a name on the pod template, together with a new image
            ops += [histgen.edit("ExtendedDaemonSet", NS, EDS, "tmplname:agent"),
                    histgen.edit("ExtendedDaemonSet", NS, EDS, "image:img:%d" % rng.choice([8, 9])), histgen.rec_eds()]
            wprop.bump(stats, "template re-applied with a metadata.name", "yes")
        evict = rng.random() < 0.4 and n >= 4
        if evict:
            # a template change with a slow rollout, and a pod of the new template is evicted meanwhile (phase Failed): the
            # failed-pod back-off delays its replacement, it must not stop it - not even when the superseded replica set is
            # always reconciled before the active one
            e["spec"]["strategy"]["rollingUpdate"]["maxUnavailable"] = 1
            ops += [histgen.edit("ExtendedDaemonSet", NS, EDS, "image:img:%d" % rng.choice([10, 11])), histgen.rec_eds()]
            ops += histgen.fair_round(rng, sleep=61) + histgen.fair_round(rng, sleep=61) + histgen.fair_round(rng, sleep=61)
            ops += [histgen.kubelet("all"), histgen.kubelet("evict", 0, only="active"), histgen.rec_all_ers(None, order=-1)]
            wprop.bump(stats, "a pod evicted during a slow rollout", "yes")
        add_tail(rng, c, n + 2, old_first=evict)
        out.append(c)
    return out


def add_tail(rng, c, n_nodes, resume=True, old_first=False):
    """resume everything (unless told not to), then fair rounds of all controllers with a kubelet"""
    ops = c["ops"]
    if resume:
        ops += [histgen.edit("ExtendedDaemonSet", NS, EDS, "unannotate:" + P.A_RU_PAUSED),
                histgen.edit("ExtendedDaemonSet", NS, EDS, "unannotate:" + P.A_FROZEN),
                histgen.edit("ExtendedDaemonSet", NS, EDS, "annotate:%s=false" % P.A_PAUSED),
                histgen.edit("ExtendedDaemonSet", NS, EDS, "annotate:%s=true" % P.A_UNPAUSED)]
    rounds = tail_rounds(n_nodes)
    c["tail_start"] = len(ops)
    c["tail_rounds"] = rounds
    for k in range(rounds):
        rnd = histgen.fair_round(rng, sleep=61)
        if old_first:
            for o in rnd:
                if o.get("op") == "reconcile" and o.get("ctrl") == "ers":
                    o["seconds"] = -1       # the adversarial order: superseded replica sets first
        if 3 <= k < rounds - 2:
            for o in rnd:
                o["nodump"] = True      # judged at the end; not every round is a correspondence case
        ops += rnd
    c["n_nodes"] = n_nodes


def hung_pod_case(rng, stats):
    """a node stops answering: its pod is deleted gracefully and never goes away (stuck Terminating past its grace period);
    the controllers come to rest around it"""
    n = rng.choice([3, 4, 5])
    c = histgen.gen_history(rng, None, n=n, canary=False, length=0)
    e = [o for o in c["objects"] if o["kind"] == "ExtendedDaemonSet"][0]
    e["spec"]["strategy"]["rollingUpdate"]["maxPodSchedulerFailure"] = rng.choice([0, 1, 2])
    ops = c["ops"]
    ops += histgen.rollout_ops(rng, 3)
    ops += [histgen.kubelet("hang", rng.choice([2, 3, n + 1])), K.sleep(rng.choice([31, 61, 700]))]
    if rng.random() < 0.5:
        ops += [histgen.edit("ExtendedDaemonSet", NS, EDS, "image:img:2")]
    add_tail(rng, c, n, resume=False)
    wprop.bump(stats, "a pod stuck terminating on a node that stopped answering", "yes")
    return c


def shrinking_cluster_case(rng, stats):
    """a manual-mode canary on a percentage of the nodes; the cluster grows (status.desired follows), then shrinks
    below the number of canary nodes that the stale status.desired resolves to; then a fair tail"""
    n = rng.choice([4, 4, 6])
    c = histgen.gen_history(rng, None, n=n, canary=True, length=0)
    e = [o for o in c["objects"] if o["kind"] == "ExtendedDaemonSet"][0]
    can = e["spec"]["strategy"]["canary"]
    can.pop("duration", None)
    can.pop("noRestartsDuration", None)
    can["validationMode"] = "manual"
    can["replicas"] = "50%"
    can["autoFail"] = {"enabled": True, "maxRestarts": 5}
    e["spec"]["strategy"]["rollingUpdate"]["maxParallelPodCreation"] = 250
    ops = c["ops"]
    ops += histgen.rollout_ops(rng, 3)
    ops += [histgen.edit("ExtendedDaemonSet", NS, EDS, "image:img:2")]
    ops += histgen.rollout_ops(rng, 3)                                     # the canary runs on half of the nodes
    grow = rng.choice([2, 2, 4])
    ops += [K.apply(K.node("n%d" % (n + i), labels={"role": "w", "zone": "a"})) for i in range(grow)]
    ops += histgen.fair_round(rng, sleep=61) + histgen.fair_round(rng, sleep=61)[:3]   # ... status.desired follows the growth
    victims = rng.sample(range(n + grow), n + grow - rng.choice([1, 2]))
    ops += [K.delete("Node", "", "n%d" % i) for i in victims]              # ... and most of the nodes go away
    add_tail(rng, c, n + grow, resume=False)
    wprop.bump(stats, "shrinking cluster under a percent canary", "%d+%d-%d" % (n, grow, len(victims)))
    return c


def encode(c, r):
    if r.get("panic"):
        return None
    lits = []
    steps = r["out"].get("steps") or []
    for st in steps:
        l = worldenc.encode_step(st, c["options"])
        if l is not None:
            lits.append("(W %s)" % l)
    # rounds of the tail: a round is silent when its reconciles issued no pod / replica-set creation or deletion
    fin = r["out"].get("final") or []
    e = worldenc.find(fin, "ExtendedDaemonSet", NS, EDS)
    if e is None:
        return lits
    # split the tail steps into rounds at the kubelet ops
    tail, seen_ops = [], 0
    idx = 0
    # steps are expanded (wildcards): find the first step of the tail by counting kubelet ops from the end
    rounds = []
    cur = None
    n_kub = 0
    for st in reversed(steps):
        if cur is None:
            cur = []
        cur.append(st)
        if st["op"].get("op") == "kubelet" and st["op"].get("cmd") == "all":
            rounds.append(list(reversed(cur)))
            cur = None
            n_kub += 1
            if n_kub == c["tail_rounds"]:
                break
    rounds.reverse()

    def noisy(rnd):
        for st in rnd:
            for cl in st.get("calls") or []:
                if cl["kind"] in ("Pod", "ExtendedDaemonSetReplicaSet") and cl["verb"] in ("create", "delete"):
                    return True
        return False
    silent = len(rounds) >= 2 and not noisy(rounds[-1]) and not noisy(rounds[-2])
    used = len(rounds)
    for k in range(len(rounds)):
        if all(not noisy(x) for x in rounds[k:]):
            used = k
            break
    bound = c["tail_rounds"] - 2
    lit = gC("Final", P.g_eds(e), gL([P.g_ers(x) for x in worldenc.by_kind(fin, "ExtendedDaemonSetReplicaSet")]),
             gL([P.g_node(x, NS, EDS, ["main"]) for x in worldenc.by_kind(fin, "Node")]),
             gL([P.g_pod(x) for x in worldenc.by_kind(fin, "Pod")]), gB(silent), gZ(used), gZ(bound))
    lits.append(P.finish(lit)[0])
    return lits


def nontrivial(c, r):
    n = 0
    for st in ((r.get("out") or {}).get("steps") or []):
        n += len([cl for cl in st.get("calls") or [] if cl["kind"] == "Pod" and cl["verb"] in ("create", "delete")])
    return n > c.get("n_nodes", 0)
