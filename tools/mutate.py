"""Mechanical mutation testing of /repo against the checks (a complement to the hand-made seeded changes).
usage: mutate.py <count> [seed]      - nothing else may use /repo meanwhile; /repo is restored after every mutant.

For <count> random single-token mutants (relational operator, boolean connective, negation, +/-1, swapped boolean literal)
of the non-test Go sources the model covers: build; run the repository's own tests of the mutated package and of its
direct users (a mutant they kill is of no interest); then apply it to /repo, run the checks mapped to that file until one
fails, restore /repo. One line per mutant in build/mutants.log: killed-by-repo-tests / KILLED by <check> (replay or
correspondence) / SURVIVED (to be triaged by hand: equivalent, outside the properties, or a miss)."""
import os
import random
import re
import subprocess
import sys

REPO = "/repo"
VERIF = "/verif"
WT = "/tmp/mutant-wt"

FILES = {
    "controllers/extendeddaemonsetreplicaset/controller.go": ["C01", "C09", "C04", "C12", "C17"],
    "controllers/extendeddaemonsetreplicaset/filters.go": ["C01", "C03", "C12"],
    "controllers/extendeddaemonsetreplicaset/strategy/rollingupdate.go": ["C03", "C09", "C08", "C04"],
    "controllers/extendeddaemonsetreplicaset/strategy/canary.go": ["C06", "C04", "C08"],
    "controllers/extendeddaemonsetreplicaset/strategy/utils.go": ["C10", "C01", "C17"],
    "controllers/extendeddaemonsetreplicaset/strategy/unknown.go": ["C01", "C09", "C14"],
    "controllers/extendeddaemonsetreplicaset/strategy/limits/limits.go": ["C03", "C09"],
    "controllers/extendeddaemonsetreplicaset/scheduler/predicates.go": ["C01", "C15"],
    "controllers/extendeddaemonsetreplicaset/conditions/update.go": ["C06", "C09", "C14"],
    "controllers/extendeddaemonset/controller.go": ["C05", "C07", "C15", "C13", "C14"],
    "controllers/extendeddaemonset/utils.go": ["C05", "C08", "C07"],
    "controllers/extendeddaemonset/conditions/update.go": ["C14", "C07", "C20"],
    "controllers/extendeddaemonsetsetting/controller.go": ["C18"],
    "controllers/podtemplate/controller.go": ["C13"],
    "pkg/controller/utils/pod/pod.go": ["C06", "C03", "C01"],
    "pkg/controller/utils/pod/create.go": ["C10", "C12"],
    "pkg/controller/utils/affinity/affinity.go": ["C10"],
    "api/v1alpha1/extendeddaemonset_default.go": ["C16"],
    "api/v1alpha1/extendeddaemonset_validate.go": ["C16"],
    "pkg/plugin/canary/pause.go": ["C19"],
    "pkg/plugin/canary/validate.go": ["C19"],
    "pkg/plugin/pause/rollingupdate.go": ["C19"],
    "pkg/plugin/freeze/rollout.go": ["C19"],
}

OPS = [
    (re.compile(r" <= "), " < "), (re.compile(r" < "), " <= "), (re.compile(r" >= "), " > "), (re.compile(r" > "), " >= "),
    (re.compile(r" == "), " != "), (re.compile(r" != "), " == "), (re.compile(r" && "), " || "), (re.compile(r" \|\| "), " && "),
    (re.compile(r"if !"), "if "), (re.compile(r"return true"), "return false"), (re.compile(r"return false"), "return true"),
    (re.compile(r" \+ 1\b"), " + 0"), (re.compile(r" - 1\b"), " - 0"), (re.compile(r"\+\+$"), ""),
]
SKIP = re.compile(r"^\s*(//|logger\.|log\.|r\.log|fmt\.|reqLogger\.|klog\.)|\.V\(|Info\(|Error\(|err != nil|err == nil|!= nil|== nil")


def sh(cmd, cwd=None, timeout=1800, env=None):
    p = subprocess.run(cmd, shell=True, cwd=cwd, capture_output=True, text=True, timeout=timeout, env=env)
    return p.returncode, p.stdout + p.stderr


def candidates():
    out = []
    for f in FILES:
        lines = open(os.path.join(REPO, f)).read().split("\n")
        for i, l in enumerate(lines):
            if SKIP.search(l):
                continue
            for k, (rx, rep) in enumerate(OPS):
                for m in rx.finditer(l):
                    out.append((f, i, m.start(), m.end(), rep, k))
    return out


def main():
    count = int(sys.argv[1])
    rng = random.Random(int(sys.argv[2]) if len(sys.argv) > 2 else 1)
    cands = candidates()
    rng.shuffle(cands)
    env = dict(os.environ, GOPROXY="off", GOSUMDB="off")
    sh("git -C %s worktree remove --force %s" % (REPO, WT))
    sh("git -C %s worktree add --detach %s HEAD" % (REPO, WT))
    log = open(os.path.join(VERIF, "build", "mutants.log"), "a")
    done = 0
    for f, i, a, b, rep, k in cands:
        if done >= count:
            break
        src = open(os.path.join(REPO, f)).read().split("\n")
        mut = list(src)
        mut[i] = src[i][:a] + rep + src[i][b:]
        desc = "%s:%d  `%s`  ->  `%s`" % (f, i + 1, src[i].strip()[:90], mut[i].strip()[:90])
        open(os.path.join(WT, f), "w").write("\n".join(mut))
        mod = "api" if f.startswith("api/") else "."
        pkg = "./" + os.path.dirname(f[4:] if f.startswith("api/") else f) + "/..."
        rc, out = sh("go build ./... && go vet %s" % pkg, cwd=os.path.join(WT, mod), env=env)
        if rc != 0:
            sh("git -C %s checkout -- ." % WT)
            continue        # does not compile / vet: not a mutant
        # the repository's own tests (the whole module: a helper's users live in other packages)
        rc, out = sh("go test -count=1 ./... 2>&1 | grep -E '^(--- FAIL|FAIL[[:space:]]+github|panic:)' | grep -v TestAPIs | grep -v 'extendeddaemonset/controllers[[:space:]]' | wc -l", cwd=os.path.join(WT, mod), env=env)
        nfail = int((out.strip().split("\n") or ["0"])[-1] or 0)
        sh("git -C %s checkout -- ." % WT)
        if nfail > 0:
            log.write("killed-by-repo-tests  %s\n" % desc)
            log.flush()
            continue
        done += 1
        open(os.path.join(REPO, f), "w").write("\n".join(mut))
        verdict = "SURVIVED"
        for c in FILES[f]:
            rc, out = sh("./check %s --tier quick 2>&1 | grep 'tier=\\|VIOLATION'" % c, cwd=VERIF, timeout=1200)
            if "FAIL" in out:
                how = "correspondence only" if "no-failing-input-found" in out else "replay"
                verdict = "KILLED by %s (%s)" % (c, how)
                break
        sh("git -C %s checkout -- ." % REPO)
        log.write("%s  %s\n" % (verdict, desc))
        log.flush()
    sh("git -C %s worktree remove --force %s" % (REPO, WT))
    sh("rm -rf /tmp/k8s_test_framework_*")
    print("done", done)


main()
