"""Encoding of one step of a world-mode run (a real Reconcile with its pre-state dump, API-call log and
return value) as a Gallina `World.case` literal."""
import project as P
from fw import gZ, gN, gB, gL, gO, gP, gC


def by_kind(dump, kind):
    return [o for o in dump if o.get("kind") == kind]


def find(dump, kind, ns, name):
    for o in dump:
        if o.get("kind") == kind and o["metadata"].get("name") == name and (o["metadata"].get("namespace", "") == (ns or "")):
            return o
    return None


def g_faults(f, old_ds_read=False):
    f = f or {}
    # a lost answer (call applied, error returned) looks to the reconcile exactly like a rejection: the
    # model predicts the calls attempted and the error flags; the store after the step is re-read anyway
    return gC("MkFaults", gL([P.nm(n) for n in f.get("create_nodes") or []]), gL([P.nm(n) for n in f.get("delete_pods") or []]),
              gL([P.nm(n) for n in f.get("patch_pods") or []]), gB(bool(f.get("status"))),
              # a failing List of the nodes, pods or settings: the sync ends before anything is planned
              # (so does a failing Get of the old DaemonSet of a declared migration)
              gB(any(k in ("Node", "Pod", "ExtendedDaemonsetSetting") for k in f.get("list_fail") or []) or
                 (old_ds_read and "DaemonSet" in (f.get("get_fail") or []))))


def g_backoff(entries, rs_uid=None):
    """the controller's failed-pod back-off, keyed <replica set UID>/<replica set name>/<node>: only the entries of the
    reconciled replica set are handed to the model (a same-named replica set of another namespace has its own; the sync
    neither reads nor writes the entries of other replica sets: C11_backoff_not_read_from_others / _written_by_others)"""
    out = []
    for e in entries or []:
        parts = e["key"].split("/")
        rs, node = parts[-2], parts[-1]
        if rs_uid is not None and "/".join(parts[:-2]) != rs_uid:
            continue
        out.append(gP(gP(P.nm(rs), P.nm(node)), gC("MkBo", gZ(e["backoff"]), gZ(e["last"]))))
    return gL(out)


def faults_from_calls(step):
    """the faults of a step as the calls experienced them (per-op faults and the case-wide fault)"""
    f = dict(step["op"].get("faults") or {})
    for c in step.get("calls") or []:
        if not c.get("failed"):
            continue
        if c["kind"] == "Pod" and c["verb"] == "create":
            f["create_nodes"] = list(f.get("create_nodes") or []) + [c.get("node", "")]
        elif c["kind"] == "Pod" and c["verb"] == "delete":
            f["delete_pods"] = list(f.get("delete_pods") or []) + [c["name"]]
        elif c["kind"] == "Pod" and c["verb"] == "patch":
            f["patch_pods"] = list(f.get("patch_pods") or []) + [c["name"]]
        elif c["verb"] == "status_update":
            f["status"] = True
        elif c["kind"] == "ExtendedDaemonSet" and c["verb"] in ("update", "patch"):
            f["update"] = True
        elif c["kind"] == "ExtendedDaemonSetReplicaSet" and c["verb"] == "delete":
            f["rs_delete"] = list(f.get("rs_delete") or []) + [c["name"]]
        elif c["kind"] == "ExtendedDaemonSetReplicaSet" and c["verb"] == "create":
            f["rs_create"] = True
    return f


def encode_ers(step, options):
    """-> (literal, info) or None when the step is outside the model (replica set not found)."""
    pre, op = step["pre"], step["op"]
    rs = find(pre, "ExtendedDaemonSetReplicaSet", op["ns"], op["name"])
    if rs is None:
        return None
    owner = P.owner_eds(rs["metadata"])
    e = find(pre, "ExtendedDaemonSet", op["ns"], owner) if owner else None
    eds_ns, eds_name = op["ns"], owner
    containers = [c["name"] for c in ((rs.get("spec") or {}).get("template") or {}).get("spec", {}).get("containers") or []]
    nodes = [P.g_node(n, eds_ns, eds_name, containers) for n in by_kind(pre, "Node")]
    pods = [P.g_pod(p) for p in by_kind(pre, "Pod")]
    if options.get("list_order"):
        # the controllers read their pod / node / replica-set lists reversed (see the harness): the snapshot lists what they read
        nodes.reverse()
        pods.reverse()
    sets = [P.g_setting(s) for s in by_kind(pre, "ExtendedDaemonsetSetting")]
    ods = None
    if e is not None:
        d = (e["metadata"].get("annotations") or {}).get(P.A_OLD_DS)
        if d is not None:
            ods = find(pre, "DaemonSet", op["ns"], d)
    sn = gC("MkErsSnap", gZ(step["now"]), P.g_ers(rs), gO(e, P.g_eds), gL(nodes), gL(pods), gL(sets), gO(ods, P.g_daemonset),
            g_backoff(step.get("backoff_pre"), rs["metadata"].get("uid", "")), gB(bool(options.get("affinity"))),
            g_faults(faults_from_calls(step), old_ds_read=e is not None and (e["metadata"].get("annotations") or {}).get(P.A_OLD_DS) is not None))
    creates, deletes, adds, dels, status = [], [], [], [], None
    for c in step["calls"]:
        if c["kind"] == "Pod":
            if c["verb"] == "create":
                creates.append(gP(P.nm(c.get("node", "")), P.g_newpod(c["obj"])))
            elif c["verb"] == "delete":
                deletes.append(P.nm(c["name"] if c.get("ns") == op["ns"] else "?foreign:%s/%s" % (c.get("ns"), c["name"])))
            elif c["verb"] == "patch":
                lab = (c["obj"]["metadata"].get("labels") or {})
                (adds if P.K_CANARY in lab else dels).append(P.nm(c["name"] if c.get("ns") == op["ns"] else "?foreign:%s/%s" % (c.get("ns"), c["name"])))
            else:
                raise ValueError("unexpected call on a pod: %r" % c["verb"])
        elif c["kind"] == "ExtendedDaemonSetReplicaSet" and c["verb"] == "status_update":
            if status is not None:
                raise ValueError("two status writes in one reconcile")
            if c["name"] != op["name"] or c["ns"] != op["ns"]:
                raise ValueError("status write to another replica set")
            status = P.g_ers_status(c["obj"].get("status"))
        else:
            raise ValueError("unexpected call %s %s" % (c["verb"], c["kind"]))
    obs = gC("MkErsObs", gL(creates), gL(deletes), gL(adds), gL(dels), gO(status), gB(step.get("requeue", False)),
             gZ(step.get("requeue_after", 0)), gB(bool(step.get("err"))), gB(bool(step.get("panic"))))
    return gC("CErs", sn, obs)


def encode_eds(step, options):
    pre, op = step["pre"], step["op"]
    e = find(pre, "ExtendedDaemonSet", op["ns"], op["name"])
    nodes = [P.g_node(n, op["ns"], op["name"], []) for n in by_kind(pre, "Node")]
    f = faults_from_calls(step)
    mode = {"": "VAuto", None: "VAuto", "auto": "VAuto", "manual": "VManual"}.get(options.get("default_mode"), "VOtherMode")
    rss_l = [P.g_ers(r) for r in by_kind(pre, "ExtendedDaemonSetReplicaSet")]
    pods_l = [P.g_pod(p) for p in by_kind(pre, "Pod")]
    if options.get("list_order"):
        nodes.reverse()
        rss_l.reverse()
        pods_l.reverse()
    sn = gC("MkEdsSnap", gZ(step["now"]), gO(e, P.g_eds), gL(rss_l),
            gL(nodes), gL(pods_l), mode, gB(bool(f.get("status"))), gB(bool(f.get("update"))),
            gL([P.nm(n) for n in f.get("rs_delete") or []]), gB(bool(f.get("rs_create"))),
            gB("ExtendedDaemonSetReplicaSet" in (f.get("list_fail") or [])),
            # the lists read inside selectNodes
            gB(any(k in ("Pod", "Node") for k in f.get("list_fail") or [])))
    writes = []
    for c in step["calls"]:
        if c["kind"] == "ExtendedDaemonSet" and c["verb"] == "update":
            writes.append(gC("OUpdate", P.g_eds(c["obj"])))
        elif c["kind"] == "ExtendedDaemonSet" and c["verb"] == "status_update":
            writes.append(gC("OStatus", P.g_eds_status(c["obj"].get("status"))))
        elif c["kind"] == "ExtendedDaemonSetReplicaSet" and c["verb"] == "create":
            o = c["obj"]
            md = o["metadata"]
            ctrl = [r for r in md.get("ownerReferences") or [] if r.get("controller") and r.get("kind") == "ExtendedDaemonSet"]
            writes.append(gC("OCreateRs", gC("MkNewRs", P.nm(md.get("namespace", "")), P.nm((md.get("labels") or {}).get(P.K_EDS, "")),
                                              P.nm(ctrl[0]["name"] if ctrl else ""),
                                              P.nm((md.get("annotations") or {}).get(P.A_HASH, "")),
                                              P.nm((o.get("spec") or {}).get("templateGeneration", "")), P.nm(o.get("_tmplHash", "")),
                                              P.g_selector((o.get("spec") or {}).get("selector")))))
        elif c["kind"] == "ExtendedDaemonSetReplicaSet" and c["verb"] == "delete":
            # a deletion outside the ExtendedDaemonSet's namespace names no replica set of the model
            writes.append(gC("ODeleteRs", P.nm(c["name"] if c.get("ns") == op["ns"] else "?foreign:%s/%s" % (c.get("ns"), c["name"]))))
        else:
            raise ValueError("unexpected call %s %s" % (c["verb"], c["kind"]))
    obs = gC("MkEdsObs", gL(writes), gB(step.get("requeue", False)), gZ(step.get("requeue_after", 0)), gB(bool(step.get("err"))),
             gB(bool(step.get("panic"))))
    return gC("CEds", sn, obs)


def encode_step(step, options):
    """Gallina literal (names interned) of a reconcile step, or None if it is not a modelled step."""
    op = step["op"]
    if op.get("op") != "reconcile" or step.get("stopped") or not step.get("pre") and step.get("pre") != []:
        return None
    if op["ctrl"] == "ers":
        lit = encode_ers(step, options)
    elif op["ctrl"] == "eds":
        lit = encode_eds(step, options)
    else:
        return None
    if lit is None:
        return None
    return P.finish(lit)[0]
