"""C05 - a new version becomes active only when the promotion rule allows it."""
import itertools

import k8s as K
import project as P
import worldgen
import wprop
from wprop import encode, classify_unencodable, sample  # noqa: F401

ID = "C05"
TAGS = ["h_world"]
CHECK_MODULE = "Check.C05Check"
IMPORTS = ["Model.Objects", "Model.PodSpec", "Model.Backoff", "Model.ErsReconcile", "Model.EdsReconcile", "Check.World"]
NS, EDS = "ns1", "foo"
RULE = ("one real ExtendedDaemonSet Reconcile per point of the product of the quantifier's factors: strategy {no canary, auto, manual} "
        "x replica-set age {duration-1s, duration, duration+1s} x noRestartsDuration {unset, 0, 300s} x last restart {none, "
        "noRestarts-1s ago, noRestarts+1s ago} x pause source {none, annotation, replica-set condition} x unpause {absent, true} x "
        "canary-valid {absent, this replica set, another} x Canary-Failed {no, yes} x recorded active replica set {present, gone}: "
        "23328 points, enumerated completely in the thorough tier, sampled (400) in the quick tier, plus random ExtendedDaemonSet "
        "worlds. Non-trivial = a status write changed or could have changed activeReplicaSet (two distinct candidates).")
ASSUMPTIONS = [
    "the two replica-set pointers never alias inside Reconcile (the up-to-date one is a deep copy)",
    "whole-second virtual clock; durations well inside the int64 range",
]
CODES = {
    1: "model does not predict the reconcile",
    10: "activeReplicaSet switched to the new replica set although the promotion rule does not allow it",
    11: "activeReplicaSet set to a replica set that is neither the recorded active nor the one matching spec.template",
    12: "a canary marked failed was promoted",
    13: "manual validation mode: promoted without the canary-valid annotation",
    14: "the recorded active replica set is gone but the matching one was not adopted",
    15: "time is missing for the promotion but the reconcile did not ask to be requeued at that moment",
    16: "a replica set that is not the active one lost its Canary-Failed mark (it could then be promoted by elapsed time)",
    20: "harness panic",
}
EXHAUSTIVE = {"quick": False, "thorough": True}
GO_TIMEOUT = 1500
DUR = 600

FACTORS = [
    ["none", "auto", "manual"],           # strategy
    [-1, 0, 1],                           # age - duration
    [None, 0, 300],                       # noRestartsDuration
    [None, -1, 1],                        # time since last restart minus noRestarts (None: no restart)
    ["none", "annotation", "condition", "annotation+oldcond"],  # pause source (the last: annotation, and a Canary-Paused=False condition left by an earlier pause)
    [False, True],                        # unpause annotation
    [None, "this", "other"],              # canary-valid
    [False, True],                        # failed
    [True, False, "terminating"],         # active replica set: present, gone, or marked for deletion but still there (a finalizer holds it)
    [False, True],                        # status.canary still names the replica set of an earlier canary (the one "other" names)
]


def lattice_case(pt, canary_cond=None):
    strat, age, nr, rst, pause, unpause, valid, failed, active_present, stale = pt
    canary = None
    if strat != "none":
        canary = K.default_canary(replicas=1, duration=DUR if strat == "auto" else None, mode=strat,
                                  no_restarts=nr if strat == "auto" else None)
    s = K.default_strategy(canary=canary)
    tplA, tplB = K.template(image="img:1"), K.template(image="img:2")
    ann = {}
    if pause in ("annotation", "annotation+oldcond"):
        ann[P.A_PAUSED] = "true"
    if unpause:
        ann[P.A_UNPAUSED] = "true"
    if valid == "this":
        ann[P.A_VALID] = "foo-b"
    elif valid == "other":
        ann[P.A_VALID] = "foo-zz"
    conds = []
    if failed:
        conds.append(K.cond("Canary-Failed", "True", trans=-30, reason="CrashLoopBackOff"))
    if pause == "condition":
        conds.append(K.cond("Canary-Paused", "True", trans=-20, reason="ImagePullBackOff"))
    if pause == "annotation+oldcond":
        conds.append(K.cond("Canary-Paused", "False", trans=-20, reason="ImagePullBackOff"))
    if rst is not None:
        base = nr if nr is not None else 300
        conds.append(K.cond("PodRestarting", "True", trans=-(base + 100), update=-(base + rst)))
    # the replica set's own Canary condition, which the promotion rule does not look at: absent, True since long, True since a
    # moment ago (a replica set reused by a later canary: its restart record is older than this canary phase), or False -
    # drawn from the point itself, so that the lattice stays the same from run to run
    import zlib
    kind = zlib.crc32(repr(pt).encode()) % 4 if canary_cond is None else canary_cond
    if kind == 1:
        conds.insert(0, K.cond("Canary", "True", trans=-3000))
    elif kind == 2:
        conds.insert(0, K.cond("Canary", "True", trans=-1))
    elif kind == 3:
        conds.append(K.cond("Canary", "False", trans=-1))
    objs = [K.node("n0", labels={"role": "w"}), K.node("n1", labels={"role": "w"})]
    est = K.eds_status(active="foo-a" if active_present else "foo-gone", desired=2, current=2, ready=2, available=2, uptodate=2,
                       state="Canary" if canary else "Running",
                       canary={"replicaSet": "foo-zz" if stale else "foo-b", "nodes": ["n0"]} if canary else None)
    objs.append(K.eds(NS, EDS, tplB, strategy=s, annotations=ann or None, status=est))
    if active_present:
        objs.append(K.ers(NS, "foo-a", EDS, tplA, created=-3000, deleting=(active_present == "terminating"),
                          status=K.ers_status(status="active", desired=2, current=2, ready=2, available=2)))
    objs.append(K.ers(NS, "foo-b", EDS, tplB, created=-(DUR + age), status=K.ers_status(status="canary", desired=1, current=1, ready=1, available=1, conditions=conds)))
    return {"kind": "world", "objects": objs, "ops": [K.reconcile("eds", NS, EDS)], "options": {"affinity": False, "default_mode": "auto"},
            "lattice_point": list(map(str, pt))}


def generate(rng, tier, stats):
    pts = list(itertools.product(*FACTORS))
    if tier == "quick":
        pts = rng.sample(pts, 400)
    out = [lattice_case(pt) for pt in pts]
    # directed: the points where only the restart record holds the promotion back, with each shape of the replica set's own
    # Canary condition (a reused replica set carries one that is younger than its restart record)
    # ... and the points where only a pause holds it back, for every pause source (the annotation next to a Canary-Paused
    # condition left False by an earlier pause is the one a first-match reader gets wrong)
    for pause in ("annotation", "condition", "annotation+oldcond"):
        for nr in (None, 300):
            for unpause in (False, True):
                for stale in (False, True):
                    out.append(lattice_case(("auto", 1, nr, 1 if nr else None, pause, unpause, None, False, True, stale)))
    for kind in (0, 1, 2, 3):
        for age in (0, 1):
            for unpause in (False, True):
                for stale in (False, True):
                    out.append(lattice_case(("auto", age, 300, -1, "none", unpause, None, False, True, stale), canary_cond=kind))
                    out.append(lattice_case(("auto", age, 300, 1, "none", unpause, None, False, True, stale), canary_cond=kind))
    stats["lattice_points"] = len(pts)
    stats["lattice_total"] = 23328
    nw = 100 if tier == "quick" else 1500
    for _ in range(nw):
        out.append(worldgen.gen_eds_world(rng, stats, {"scenario": rng.choice(["canary_running", "canary_running", "canary_failed", "active_missing", "no_canary_update", "many_rs"])}))
    return out


def nontrivial(c, r):
    names = set(o["metadata"]["name"] for o in c["objects"] if o["kind"] == "ExtendedDaemonSetReplicaSet")
    return len(names) >= 2 and bool(wprop.calls_of(r, "status_update", "ExtendedDaemonSet"))
